"""X01 — the tie of the COMPOSED reactor model (lean/Kopf/Model/X01_Reactor.lean) to the real operator.

NOT a property module (no ID/run): `run_reactor(ctx, traces)` is called from the C03 / C07 checks (or from `selftest()`).

The tie (S, step refinement on closed-loop traces): whole-operator simulations (harness/sim + props/sim_c07.Sim07: per-event
echo delays of the operator's OWN writes vs. foreign ones, reactive foreign edits right after an own write) of ONE object with
change handlers. The history is fed to the Lean composed step as the adversary's actions only:
    foreign writes (essence class, arrival time of their event), worker iterations (`work d`: d = how late the echo of its
    write arrived), idle retirements of the worker.
Versions are NOT fed: the model generates them (server-side counter); they are compared, by rank in the object's stored
history, with the versions the real worker dequeued and the real `application.apply` returned. After EVERY worker iteration
`ctx.compare`: view version, dequeue time, `consistency_time` given, held back or not, changing stage entered, handlers
invoked (id, retry), version returned, and the object/memory abstraction after it (progress records, last-handled class,
finalizer, fully_handled_once, number of PATCH requests).
"""
from __future__ import annotations

import copy
import json
import os
import random
import subprocess
import sys
from concurrent.futures import ThreadPoolExecutor
from pathlib import Path
from typing import Any

ROOT = Path(__file__).resolve().parent.parent.parent
KEY = "kopfexamples/ns/a"

THEOREMS = [("Kopf.Props.X01", "Kopf.X01." + n) for n in [
    "reactor_refines_loop", "clockFwd_of_wf", "reactor_iter_refines", "reactor_converges", "no_stale_handling",
    "no_stale_handling_created", "no_stale_handling_step_partial",
]] + [("Kopf.Props.X01_Drain", "Kopf.X01." + n) for n in [
    "work_queue_le", "work_queue_lt_of_no_version", "witer_queue_le", "stale_then_converges_partial",
]] + [("Kopf.Props.X01_Variant", "Kopf.X01." + n) for n in [
    "workA_arrive", "runActsA_arrive", "lax_arrival_witness",
]] + [("Kopf.Props.X01_Noop", "Kopf.X01.noop_makes_no_version")] + [("Kopf.Props.X01_TwoReq", "Kopf.X01." + n) for n in [
    "no_stale_handling_two_request", "no_stale_handling_two_request_created", "work2_rv_one_request",
]]


ASSUMPTIONS = [
    "X01 (composed reactor): the composed model's turn is atomic — a cycle that sends a merge-patch AND a JSON-patch makes two versions "
    "(release after a retried delete handler, patch.fns, the carried patch): such cycles are skipped and counted (x01_skipped: "
    "two-version-cycle); a cycle whose two requests straddle a foreign write is not compared; on.event constants are generated only "
    "with handlers that never ask for a delay; a record differing only in `stopped` (C02.Rec has no such field) cuts the history "
    "(x01_model_limit). The tie covers one object, create/update/delete handlers, late echoes, foreign writes, worker retirement.",
    "X01: stale_then_converges is proved only as stale_then_converges_partial (guard: k silent iterations bring the system InTime); "
    "the ranking argument that the guard is met within a bound is not proved.",
]
TRUSTED = ["harness/props/x01_reactor.py abstraction of sim_c07.Sim07 traces into the adversary's acts (late-echo lag, foreign writes, "
           "per-iteration handler outcomes, retirements) and the rank-of-version comparison"]


def ticks(x: float) -> int:
    v = x * 64
    r = round(v)
    if abs(v - r) > 1e-6:
        raise ValueError(f"time {x!r} is not a multiple of 1/64 s")
    return int(r)


# ---------------------------------------------------------------------------------------------------------------
# generator: one object, change handlers only, late echoes of own writes, foreign edits around own writes
def gen_scenario(rng: Any, i: int) -> dict:
    T = rng.choice([0.25, 1.0, 1.0, 5.0])
    Tt = int(T * 64)
    L = rng.choice([1, 1, 2, 4])
    R = rng.choice([0, 0, 1, 2])
    cls = rng.choice(["zero", "below", "below", "late", "late", "above"])
    own = {"zero": 0, "below": rng.randrange(1, max(2, Tt // 2)), "late": rng.randrange(max(1, Tt // 2), Tt + R + 1),
           "above": Tt + R + rng.choice([1, 8, 32])}[cls]
    foreign = rng.choice([0, 0, rng.randrange(1, 9), own])

    def script() -> list:
        out: list = []
        for _ in range(rng.choice([0, 0, 1, 1, 2, 3])):
            a = rng.choice(["ok", "temp", "temp", "temp", "perm"])
            out.append(["temp", rng.choice([0.25, 0.5, 1.0, 2.0])] if a == "temp" else a)
        return out

    handlers: list[dict] = [{"kind": "create", "id": "c0", "script": script(), "default": "ok", "opts": {"backoff": rng.choice([0.25, 1.0])}}]
    if rng.random() < 0.85:
        handlers.append({"kind": "update", "id": "u0", "script": script(), "default": "ok", "opts": {"backoff": rng.choice([0.25, 1.0])}})
    if rng.random() < 0.3:
        handlers.append({"kind": "create", "id": "c1", "script": script(), "default": "ok"})
    if rng.random() < 0.25:
        handlers.append({"kind": "update", "id": "u1", "script": script(), "default": "ok"})
    t_create = 1.0
    # an on.event handler returning a CONSTANT (8 %): every cycle's patch is non-empty and changes nothing (the object is created
    # with that result already stored, so it is a no-op from the first cycle on): C03's `constPatch`, and GLUE 7 on stale views
    const_event = rng.random() < float(os.environ.get("X01_CONST_P", "0.08"))
    body0: dict = {"spec": {"x": 0}}
    if const_event:
        handlers.append({"kind": "event", "id": "e0", "script": [], "default": ["ok", {"state": "seen"}]})
        body0["status"] = {"e0": {"state": "seen"}}
        # EXCLUDED AT GENERATION (stated limit of the model, its turn is atomic): with a constant patch a cycle that SLEEPS sends two
        # requests — the constant one before the sleep, the touch after it — and a foreign write can land between them (the first is
        # answered with the old version: no "change", the sleep is taken; the model, seeing the write before the turn, takes the view
        # for stale: GLUE 7, no sleep). So no handler of such a scenario asks for a retry delay: no cycle ever has delays to sleep.
        for h in handlers:
            if h["kind"] in ("create", "update"):
                h["script"] = ["perm" if isinstance(a, list) and a and a[0] == "temp" else a for a in h.get("script", [])]
    timeline: list[list] = [[t_create, "create", "a", body0]]
    window = (L + R) * 4 + own + foreign + 64
    x = 0
    t_last = t_create
    for _ in range(rng.choice([0, 1, 2, 3, 4])):
        x += 1
        t = t_create + rng.randrange(0, window) / 64.0
        t_last = max(t_last, t)
        timeline.append([t, "edit", "a", {"spec": {"x": x}}])
    reactive = []
    for _ in range(rng.choice([0, 1, 1, 2, 3])):
        span = own + R + 16
        reactive.append({"nth": rng.choice([1, 1, 2, 2, 3, 4, 5]),
                         "offsets": sorted(rng.choice([0, 0, 1, rng.randrange(0, span), rng.randrange(0, span)])
                                           for _ in range(rng.choice([1, 1, 2, 3])))})
    horizon = max(T, own / 64.0, 1.0)
    t_quiet = t_last + 10 * horizon + 8
    if rng.random() < 0.35:
        timeline.append([t_quiet, "edit", "a", {"spec": {"x": 900}}])
        t_quiet += 6 * horizon + 6
    if not const_event and rng.random() < 0.4:
        # deletion with the framework's finalizer: a mandatory delete handler (the finalizer is added in a turn of its own — on a
        # stale view its JSON-patch is refused with 422 and the next event decides anew), a deletion request at the end, the release
        handlers.append({"kind": "delete", "id": "x0", "script": script() if rng.random() < 0.4 else [], "default": "ok",
                         "opts": {"backoff": 0.25}})
        if rng.random() < 0.6:      # a foreign edit right behind the creation: the first view is stale when the finalizer is added
            timeline.append([t_create + rng.choice([1, 2, 3]) / 64.0, "edit", "a", {"spec": {"x": 700}}])
        timeline.append([t_quiet, "delete", "a"])
        t_quiet += 6 * horizon + 6
    return {"seed": i, "handlers": handlers, "timeline": timeline, "objects": [], "slips": [],
            "settings": {"persistence.consistency_timeout": T, "queueing.idle_timeout": rng.choice([1.0, 5.0, 5.0]),
                         "execution.default_backoff": 1.0, "watching.reconnect_backoff": 0.125},
            "c07": {"latency": L, "resp_latency": R, "own_delay": own, "foreign_delay": foreign, "jitter": [], "reactive": reactive,
                    "breaks": [], "pauses": [], "echo_class": cls, "foreign_class": "x01"},
            "end": t_quiet + 2.0}


# ---------------------------------------------------------------------------------------------------------------
# abstraction (runs in the simulation subprocess): one trace -> driver request + per-iteration observations
class Skip(Exception):
    pass


def abstract(sc: dict, tr: dict) -> dict:
    from . import c03
    from ..sim import observe
    from kopf._core.actions import application
    cap = int(round(float(application.WAITING_KEEPALIVE_INTERVAL) * 64))
    if tr.get("sim_error"):
        raise Skip("sim-error")
    hist = [v for v in tr["history"].get(KEY, [])]
    if not hist:
        raise Skip("no-object")
    uid = hist[0]["body"]["metadata"]["uid"]
    if any(v["body"]["metadata"].get("uid") != uid for v in hist) or any(v["event"] == "DELETED" for v in hist[:-1]):
        raise Skip("several-incarnations")
    deleted_rv = str(hist[-1]["body"]["metadata"]["resourceVersion"]) if hist[-1]["event"] == "DELETED" else None
    cycles = [c for c in tr["cycles"] if c["uid"] == uid]
    # the DELETED event of an object the framework itself released: C03's loop has no event for it (nothing is pending after
    # the release); what the worker does with it (cause GONE: nothing) is not compared
    n_gone = 0
    while cycles and cycles[-1]["event_type"] == "DELETED":
        cycles.pop()
        n_gone += 1
    if any(c["event_type"] == "DELETED" for c in cycles):
        raise Skip("events-after-the-DELETED-one")
    if not cycles or any(c.get("error") for c in cycles):
        raise Skip("cycle-error-or-none")
    if any(c.get("c07") is None or c["c07"].get("t_out") is None or c.get("cause") is None for c in cycles):
        raise Skip("cycle-not-observed")
    if len({c["inc"] for c in cycles}) != 1:
        raise Skip("several-operators")
    off = cycles[0]["t0"] - cycles[0]["loop_t0"]      # wall-virtual vs loop time
    if any(abs((c["t0"] - c["loop_t0"]) - off) > 1e-9 for c in cycles):
        raise Skip("clock-bases-drift")
    rank = {str(v["body"]["metadata"]["resourceVersion"]): k + 1 for k, v in enumerate(hist)}
    deliv = {str(d["rv"]): d for d in tr["deliveries"]}
    if any(rv not in deliv for rv in rank):
        raise Skip("version-without-delivery")
    ess_ids: list = []

    def ess_id(body: dict) -> int:
        e = c03.py_essence(body)
        if e not in ess_ids:
            ess_ids.append(e)
        return ess_ids.index(e)

    # who made each version
    writer: dict[str, int] = {}
    per_cycle_reqs: dict[int, int] = {}
    first_applied: dict[int, float] = {}
    answered: dict[int, int] = {}
    for q in tr["requests"]:
        if q.get("method") == "PATCH" and "/kopfexamples/" in q.get("path", "") and q.get("cycle") is not None:
            per_cycle_reqs[q["cycle"]] = per_cycle_reqs.get(q["cycle"], 0) + 1
            if q.get("t_applied") is not None:
                first_applied.setdefault(q["cycle"], q["t_applied"])
            if q.get("applied_rv") is not None and str(q["applied_rv"]).isdigit():
                answered.setdefault(q["cycle"], int(q["applied_rv"]))
            arv = q.get("applied_rv")
            if arv is not None and str(arv) in rank and deliv[str(arv)].get("own") and abs(deliv[str(arv)]["t_emit"] - q["t_applied"]) < 1e-9 \
                    and isinstance(q.get("response"), int) and q["response"] < 300:
                if str(arv) in writer and writer[str(arv)] != q["cycle"]:
                    raise Skip("version-claimed-twice")
                writer[str(arv)] = q["cycle"]
    if deleted_rv is not None:
        rel = [c["i"] for c in cycles if str(c.get("result_rv") or "").endswith("~which~never~arrives")]
        if not deliv[deleted_rv].get("own") or len(rel) != 1:
            raise Skip("deleted-not-by-one-release")
        writer[deleted_rv] = rel[0]
    wrote: dict[int, list[str]] = {}
    for rv, ci in writer.items():
        wrote.setdefault(ci, []).append(rv)
    if any(len(v) > 1 for v in wrote.values()):
        raise Skip("two-version-cycle")
    ids = {c["i"] for c in cycles}
    if any(ci not in ids for ci in wrote):
        raise Skip("write-of-unknown-cycle")
    pp = next((c["pcc"] for c in cycles if c.get("pcc")), None)
    if pp is None:
        raise Skip("no-handling-pass")
    owned = [d["id"] for d in pp["decls"]]
    lats = {ticks(c["t1"] - c["t0"]) for c in cycles if c["i"] in wrote and not (c.get("apply") or {}).get("delays")
            and c.get("pcc") is not None and c["c07"].get("sleep") is None}
    lat = ticks((sc["c07"]["latency"] + sc["c07"]["resp_latency"]) / 64.0)
    if lats and lats != {lat}:
        raise Skip(f"round-trip-not-constant:{sorted(lats)}")
    if any(ticks(call.get("t_end", call["t"])) > ticks(call["t"]) for call in tr["calls"]):
        raise Skip("handler-takes-time")

    def lt(t_loop: float) -> int:
        return ticks(t_loop + off)

    # lives -> retirements before the first cycle of a later life
    retire_before: dict[int, int] = {}
    lives = [l for l in tr["lives"] if l.get("uid") == uid]
    pos = 0
    for li, life in enumerate(lives):
        gets = [g for g in life["gets"] if g[1] != "EOS"]
        if li == len(lives) - 1 and n_gone:
            gets = gets[:len(gets) - n_gone]
        if li > 0 and gets and pos < len(cycles):
            prev = lives[li - 1]
            if prev["t_end"] is None:
                raise Skip("overlapping-workers")
            retire_before[cycles[pos]["i"]] = lt(prev["t_end"])
        pos += len(gets)
    if pos != len(cycles):
        raise Skip("cycles-do-not-match-dequeues")
    conflict = {q["cycle"] for q in tr["requests"] if q.get("method") == "PATCH" and "/kopfexamples/" in q.get("path", "")
                and q.get("cycle") is not None and q.get("response") == 422}

    tables: dict[int, dict[str, dict[str, dict]]] = {}
    for c in cycles:
        p = c.get("pcc")
        if p is None:
            continue
        if "P_after" not in p or "error" in (p["P_after"] or {}):
            raise Skip("no-P_after")
        table: dict[str, dict[str, dict]] = {}
        for inv in c["invoked"]:
            hid = inv.get("hid") or inv["id"]
            if hid not in owned:
                continue
            o = (p.get("outcomes") or {}).get(hid)
            if o is None:
                raise Skip("invoked-without-outcome")
            row = {k: o[k] for k in ("final", "delay", "error", "subrefs")}
            if table.setdefault(hid, {}).setdefault(str(inv["retry"]), row) != row:
                raise Skip("outcome-conflict")
        tables[c["i"]] = table

    const_patch = any(h["kind"] == "event" and isinstance(h.get("default"), list) and len(h["default"]) > 1 for h in sc["handlers"])
    if const_patch and any(c.get("pcc") is not None and (c.get("apply") or {}).get("delays") for c in cycles):
        # the same class, for histories that do not come from `gen_scenario` (corpus, replays): not compared, counted
        raise Skip("const-patch+sleeping-cycle")
    for ci, rvs in wrote.items():
        # … and its exact shape wherever it occurs (e.g. a held-back cycle that sleeps the waiting time and touches): the cycle's first
        # request was answered with a version BELOW a foreign one that is below the version the cycle then made
        if ci in answered and any(answered[ci] < int(f) < int(rvs[0]) for f in rank if f not in writer):
            raise Skip("two-requests-of-one-cycle-straddle-a-foreign-write")
    # sequence the adversary's actions: versions in the server's order; a worker iteration right where its write landed
    acts: list[dict] = []
    impl: list[dict | None] = []
    pending = list(cycles)
    cur = hist[0]["body"]
    e0 = ess_id(cur)        # the created object's essence gets the first id
    fin = c03.own_fin(sc)

    def emit_cycle(c: dict, body_after: dict) -> None:
        if c["i"] in retire_before:
            acts.append({"retire": retire_before[c["i"]]})
            impl.append(None)
        tret = c["loop_t0"] + (c["t1"] - c["t0"])
        d = 0
        mine = wrote.get(c["i"])
        if mine:
            dv = deliv[mine[0]]
            d = max(0, ticks(dv["t_emit"] + dv["delay"] - tret))
        acts.append({"work": d, "outcomes": tables.get(c["i"], {})})
        c7 = c["c07"]
        must_block = any(c7["reqfin"])
        fin_turn = (must_block and not c7["blocked"] and not c7["ongoing"]) or ((not must_block) and c7["blocked"])
        required = bool(c.get("cause") is not None and c7["prematch"] and not fin_turn)
        held = bool(required and not c7["matched"])
        b = c03.py_base(body_after)
        impl.append({
            "ver": rank[str(c["rv"])], "now": lt(c["loop_t0"]),
            "given": None if c["consistency_time"] is None else lt(c["consistency_time"]),
            "held": held, "entered": c.get("pcc") is not None,
            "invoked": [[i.get("hid") or i["id"], i["retry"]] for i in c["invoked"] if (i.get("hid") or i["id"]) in owned],
            "patched": rank[mine[0]] if mine else None,
            "P": c03.py_records(body_after, owned),
            "base": "none" if b is None else ("same" if b == c03.py_essence(body_after) else "diff"),
            "blocked": fin in (body_after["metadata"].get("finalizers") or []),
            "fullyHandled": bool((c.get("mem_after") or {}).get("fully_handled_once")),
            "writes": per_cycle_reqs.get(c["i"], 0),
            "_cycle": c["i"], "_result_rv": c.get("result_rv"), "_own_rv": mine[0] if mine else None,
            "_sleep": None if c7.get("sleep") is None else bool(c7["sleep"].get("timed_out")),
            "_released": bool(mine and mine[0] == deleted_rv), "_422": c["i"] in conflict,
            "_fin": ((c.get("apply") or {}).get("fns") or [None])[0] if c.get("pcc") is None else None,
            "_constcut": bool(const_patch and (c.get("apply") or {}).get("delays") and not mine and per_cycle_reqs.get(c["i"], 0) >= 1),
        })

    for v in hist[1:]:
        rv = str(v["body"]["metadata"]["resourceVersion"])
        if rv in writer:
            while pending:
                c = pending.pop(0)
                if c["i"] == writer[rv]:
                    cur = v["body"]
                    emit_cycle(c, cur)
                    break
                if c["i"] in wrote:
                    raise Skip("writes-out-of-cycle-order")
                emit_cycle(c, cur)
            else:
                raise Skip("writer-cycle-not-found")
        else:
            t_f = deliv[rv]["t_emit"]
            # a cycle without a version of its own goes before this foreign write iff it was over before it — or, when it
            # sent a PATCH that changed nothing, iff the server served that PATCH before (it is answered with the version held THEN)
            def before(c: dict) -> bool:
                if c["i"] in answered:
                    return answered[c["i"]] < int(rv)          # answered with a version older than this foreign one
                if c["i"] in first_applied:
                    return first_applied[c["i"]] <= t_f
                return c["loop_t0"] + (c["t1"] - c["t0"]) < t_f
            while pending and pending[0]["i"] not in wrote and before(pending[0]):
                emit_cycle(pending.pop(0), cur)
            was_marked = bool(cur["metadata"].get("deletionTimestamp"))
            cur = v["body"]
            if bool(cur["metadata"].get("deletionTimestamp")) and not was_marked:
                acts.append({"delete": lt(deliv[rv]["t_emit"] + deliv[rv]["delay"])})     # somebody's deletion request
            else:
                acts.append({"foreign": [ess_id(cur), lt(deliv[rv]["t_emit"] + deliv[rv]["delay"])]})
            impl.append(None)
    while pending:
        c = pending.pop(0)
        if c["i"] in wrote:
            raise Skip("write-without-version")
        emit_cycle(c, cur)
    d0 = deliv[str(hist[0]["body"]["metadata"]["resourceVersion"])]
    req = ["X01.run", {
        "T": ticks(float(sc["settings"]["persistence.consistency_timeout"])),
        "idle": ticks(float(sc["settings"]["queueing.idle_timeout"])),
        "decls": pp["decls"], "matched": pp["matched"], "subs": [], "lifecycle": sc.get("lifecycle") or "asap",
        "limits": pp["limits"], "outcomes": {}, "prematch": True,
        "changeReq": any(h["kind"] == "delete" and not h.get("opts", {}).get("optional") for h in sc["handlers"]), "foreignFins": False,
        "constPatch": const_patch, "lat": lat, "rtt": lat, "cap": cap, "universe": owned,
        "ess": e0, "now": lt(d0["t_emit"] + d0["delay"]), "noticed": cycles[0]["event_type"] is None, "acts": acts}]
    return {"req": req, "impl": impl, "const": const_patch, "T": sc["settings"]["persistence.consistency_timeout"],
            "echo_class": sc["c07"].get("echo_class")}


# ---------------------------------------------------------------------------------------------------------------
# simulation in subprocess workers (stall-safe), abstraction done there
def _simulate_one(sc: dict, wall: float) -> dict:
    from . import sim_c07
    from ..sim import observe, simloop
    holder: dict[str, Any] = {}

    async def main() -> dict:
        sim = sim_c07.Sim07(copy.deepcopy(sc))
        holder["sim"] = sim
        with observe.installed(sim.obs), sim_c07.installed07(sim):
            return await sim.run()

    try:
        tr = simloop.run_sim(main, wall_limit=wall)
    except (simloop.SimDeadlock, simloop.SimStall) as e:
        return {"skip": f"sim-error:{type(e).__name__}"}
    sim = holder["sim"]
    tr["lives"] = sim.lives
    tr["deliveries"] = sim.deliveries
    for q, r in zip(tr.get("requests", []), sim.cluster.requests):
        for k in ("cycle", "t_applied", "applied_rv"):
            if k in r and k not in q:
                q[k] = r[k]
    try:
        return abstract(sc, tr)
    except Skip as e:
        return {"skip": str(e)}


def _worker_main() -> None:
    wall = float(sys.argv[2]) if len(sys.argv) > 2 else 40.0
    for line in sys.stdin:
        line = line.strip()
        if not line:
            continue
        item = json.loads(line)
        sys.stderr.write(f"@@BEGIN {item['i']}\n")
        sys.stderr.flush()
        try:
            out = {"i": item["i"], "out": _simulate_one(item["sc"], wall)}
        except Exception as e:  # noqa: BLE001
            import traceback
            out = {"i": item["i"], "harness_error": f"{type(e).__name__}: {e}", "tb": traceback.format_exc()[-3000:]}
        sys.stdout.write(json.dumps(out, default=repr) + "\n")
        sys.stdout.flush()


def _run_batch(items: list[tuple[int, dict]], wall: float, results: dict[int, dict]) -> None:
    env = dict(os.environ)
    env["PYTHONPATH"] = f"{ROOT}:{env.get('KOPF_REPO', '/repo')}"
    env["PYTHONHASHSEED"] = "0"
    pending = list(items)
    while pending:
        payload = "".join(json.dumps({"i": i, "sc": sc}) + "\n" for i, sc in pending)
        p = subprocess.run(["timeout", "-s", "KILL", str(int(wall * (len(pending) + 2) + 120)), sys.executable, "-m",
                            "harness.props.x01_reactor", "--worker", str(wall)], input=payload, capture_output=True, text=True,
                           cwd=str(ROOT), env=env)
        done = set()
        for line in p.stdout.splitlines():
            if line.startswith("{"):
                r = json.loads(line)
                results[r["i"]] = r
                done.add(r["i"])
        rest = [(i, sc) for i, sc in pending if i not in done]
        if not rest:
            return
        if len(rest) == len(pending) and p.returncode == 0:
            for i, _ in rest:
                results[i] = {"i": i, "harness_error": "worker produced no output", "tb": p.stderr[-2000:]}
            return
        results[rest[0][0]] = {"i": rest[0][0], "harness_error": "stall or crash", "tb": p.stderr[-2000:]}
        pending = rest[1:]


def simulate(scenarios: list[dict], wall: float = 40.0, jobs: int | None = None) -> list[dict]:
    """Closed-loop traces of the real operator, abstracted: one {"sc", "req", "impl"} | {"sc", "skip"} per scenario."""
    jobs = jobs or int(os.environ.get("VERIF_JOBS", "0")) or min(16, os.cpu_count() or 4)
    items = list(enumerate(scenarios))
    size = max(1, min(16, (len(items) + jobs - 1) // jobs))
    batches = [items[k:k + size] for k in range(0, len(items), size)]
    results: dict[int, dict] = {}
    with ThreadPoolExecutor(max_workers=jobs) as ex:
        list(ex.map(lambda b: _run_batch(b, wall, results), batches))
    out = []
    for i, sc in items:
        r = results.get(i, {"harness_error": "missing"})
        if "out" not in r:
            raise RuntimeError(f"X01 simulation failed (harness, not a verdict): {str(r)[:3000]}")
        out.append({"sc": sc, **r["out"]})
    return out


# ---------------------------------------------------------------------------------------------------------------
KEYS = ("ver", "now", "given", "held", "entered", "invoked", "patched", "P", "base", "blocked", "fullyHandled", "writes")


def run_reactor(ctx: Any, traces: list[dict] | None = None, n: int | None = None) -> None:
    """THE TIE. `traces`: what `simulate()` returns (default: `n` generated scenarios, seeded from ctx.rng)."""
    if traces is None:
        n = n if n is not None else ctx.budget(24, 1500)
        base = ctx.rng.randrange(1 << 30)
        traces = simulate([gen_scenario(random.Random(f"x01-{base}-{i}"), base + i) for i in range(n)])
    batch = []
    for t in traces:
        if "skip" in t:
            ctx.count("x01_skipped", t["skip"].split(":")[0])
            continue
        batch.append(t)
        ctx.count("x01_T", t["T"])
        ctx.count("x01_echo_class", t["echo_class"])
    ctx.count("x01_traces", "compared", len(batch))
    outs = ctx.driver.ask([t["req"] for t in batch])
    for t, out in zip(batch, outs):
        rep0 = {"x01_scenario": t["sc"]}
        if not out or out[0] != "ok":
            ctx.tie_fail("X01 driver rejected a history", {**rep0, "answer": out})
            continue
        ctx.traces += 1
        steps = out[1]["steps"]
        acts = t["req"][1]["acts"]
        if len(steps) != len(acts):
            ctx.tie_fail("X01 driver answered another number of steps", rep0)
            continue
        prev_noversion = False
        for k, (a, im, m) in enumerate(zip(acts, t["impl"], steps)):
            if im is None:
                if "delete" in a:
                    ctx.count("x01_paths", "delete act: somebody's deletion request (marked, held by the finalizer)")
                continue
            rep = {**rep0, "step": k, "cycle": im["_cycle"]}
            if not m.get("work"):
                ctx.compare("X01 worker iteration: the model has an event to dequeue", {"work": True}, {"work": False}, rep)
                break
            if im["_constcut"] and not m["stale"]:
                # stated limit (the model's turn is atomic): the constant request is served, THEN the sleep starts and is cut by an event
                # whose write came after that request — ordered before the turn it makes the view stale (GLUE 7 arms on it), ordered
                # after it there is nothing to cut the sleep: neither is what happened. The rest of this history is not compared.
                ctx.count("x01_model_limit", "constPatch: sleep after the constant request cut by a later write: history cut here")
                break
            keys = [k2 for k2 in KEYS if not (im["_released"] and k2 in ("P", "base", "blocked"))]
            real = {key: im[key] for key in keys}
            model = {key: m[key] for key in keys}
            if im["_released"]:
                model["gone"], real["gone"] = m["gone"], True
                ctx.count("x01_paths", "release: the finalizer removed, the object gone, the version that never arrives")
            if t.get("const") and m["stale"] and im["writes"] == 1 and im["patched"] is None and not im["invoked"]:
                ctx.count("x01_paths", "constPatch on a stale view: one request, no version, no sleep/touch (GLUE 7)"
                          + (", held back" if held else ""))
            elif t.get("const") and im["writes"] >= 1 and im["patched"] is None:
                ctx.count("x01_paths", "constPatch: the constant part sent, nothing changed")
            if im["_422"]:
                ctx.count("x01_paths", "finConflict-422: a stale view's finalizer JSON-patch refused, the next event decides anew")
            if im["_fin"] in ("block_deletion", "allow_deletion") and not im["_422"] and not im["_released"]:
                ctx.count("x01_paths", "finalizer turn: " + im["_fin"])
            if m.get("reason") == "delete" and not held:
                ctx.count("x01_paths", "deletion handled (cause DELETE on a marked, blocked object)")
            model["entered"] = m["entered"] is not None
            held = bool(im["held"])
            released_by_timeout = im["given"] is not None and not held and im["entered"]
            ctx.count("x01_iteration", "held back" if held else
                      "changing stage ran: the deadline was over / slept out (view possibly stale)" if released_by_timeout else
                      "changing stage ran" if im["entered"] else "not required")
            if m["stale"]:
                ctx.count("x01_view", "older than what the server holds" + (", held back" if held else ", processed"))
            if im["patched"] is not None:
                ctx.count("x01_versions", "own write: the model's generated version = rank of the version apply returned")
            ctx.case(key={"held": held, "given": im["given"] is not None, "entered": im["entered"], "stale": m["stale"],
                          "patched": im["patched"] is not None, "inv": len(im["invoked"]), "base": im["base"], "sleep": im["_sleep"]},
                     nontrivial=held or im["given"] is not None or im["patched"] is not None)
            if m["stale"] and not held and im["entered"] and im["patched"] is None and im["writes"] >= 1:
                # GLUE 2: the changing stage ran on a STALE view and its PATCH changed nothing on the server: no version
                ctx.count("x01_view", "stale view processed, its PATCH was a server-side no-op (no version made)")
            if m["stale"] and not held and im["entered"] and im["patched"] is not None and m["patched"] is None and im["invoked"] \
                    and {k2: real[k2] for k2 in real if k2 != "patched"} == {k2: model[k2] for k2 in model if k2 != "patched"}:
                # stated limit of C02's record abstraction (`Rec` has no `stopped` timestamp): a handler re-run on a stale view
                # after the timeout writes a record that differs from the stored one in that field only — the server makes a
                # version, the model sees a no-op. The rest of this history is not compared.
                ctx.count("x01_model_limit", "re-run on a stale view: record differs in a field C02.Rec does not carry (stopped): history cut here")
                break
            if t.get("const") and prev_noversion and 0 < real["now"] - model["now"] <= t["req"][1]["lat"] \
                    and {k2: real[k2] for k2 in real if k2 != "now"} == {k2: model[k2] for k2 in model if k2 != "now"}:
                # stated limit, cause known (replays/C03-5-0.json): C03's `handleTurn` charges NO time for the constant request when
                # nothing else follows it (`nextState … s.now false (writes + cp)`), the real processor returns one round trip later; an
                # event that arrives inside that round trip is dequeued when the processor returns — up to `lat` ticks later than in the
                # model. Only here: on.event constant, the iteration before sent a request that made no version, every compared key but
                # the dequeue time agrees, the real time is later by at most the round trip. The rest of this history is not compared.
                ctx.count("x01_model_limit", "constPatch: dequeue time late by up to one round trip after a constant-only request (C03 charges it no time): history cut here")
                break
            if not ctx.compare("X01 composed worker iteration (view version, time, barrier decision, invocations, version "
                               "returned, object/memory after)", real, model, rep):
                break       # the model's state has diverged: later iterations of this history say nothing new
            prev_noversion = bool(im["writes"] >= 1 and im["patched"] is None)
            if im["_released"]:
                ctx.compare("X01 the release is answered with a version that never arrives (the model's `never` flag)", {"never": True},
                            {"never": str(im["_result_rv"] or "").endswith("~which~never~arrives")}, rep)
            elif im["_own_rv"] is not None and im["_result_rv"] is not None:
                ok = str(im["_result_rv"]).split("~")[0] == str(im["_own_rv"])
                ctx.compare("X01 the version application.apply returned is the version the cycle's write made", {"ok": True}, {"ok": ok}, rep)


def selftest(n: int = 60, seed: int = 0) -> int:
    """Standalone: builds a minimal ctx (harness.core.Ctx with the X01 driver) and runs only the tie."""
    from .. import core, leanio
    leanio.lake_build(["Kopf.Drv.X01", "Kopf.Drv.Main"])
    ctx = core.Ctx("X01", "quick", seed)
    ctx.driver = leanio.Driver(["X01"])
    run_reactor(ctx, n=n)
    print(json.dumps({"histograms": ctx.hist, "evaluations": ctx.evaluations, "distinct_nontrivial": len(ctx.nontrivial),
                      "tie_comparisons": ctx.tie_comparisons, "traces": ctx.traces, "failures": len(ctx.failures)}, indent=1))
    for f in ctx.failures[:3]:
        rep = f.replay if isinstance(f.replay, dict) else {}
        print("FAIL", f.kind, f.what)
        print(" impl ", json.dumps(rep.get("impl"), sort_keys=True)[:1500])
        print(" model", json.dumps(rep.get("model"), sort_keys=True)[:1500])
        print(" at", (rep.get("input") or {}).get("step"), "seed", ((rep.get("input") or {}).get("x01_scenario") or {}).get("seed"))
    return 1 if ctx.failures else 0


if __name__ == "__main__":
    if len(sys.argv) > 1 and sys.argv[1] == "--worker":
        _worker_main()
    else:
        sys.exit(selftest(int(sys.argv[1]) if len(sys.argv) > 1 else 60, int(sys.argv[2]) if len(sys.argv) > 2 else 0))
