"""C10 — timer schedule laws: no self-overlap, interval / sharp grid / error delay / initial delay / idle.

Theorems: lean/Kopf/Props/C10.lean over lean/Kopf/Model/C10_Timer.lean (the loop of `daemons._timer`
as relations `First` / `Next` / `Sched` over run records and an arbitrary view of `idle_reset_time`).

Ties, re-run by every check:
 (T) `extract()` re-reads `_timer` from the AST: the statement skeleton of the function (prologue, loop
     body), the post-run branch chain with the arithmetic of its sleep arguments, the conditions and
     sleep arguments of the idle gate and of the idle-only poll loop → Kopf/Extracted/C10.lean, proved
     equal to the model in Kopf/Tie/C10.lean.
 (S) closed-loop simulations of the REAL operator (harness/sim: virtual time, fake API server with a
     1/64 s round trip): for every timer task the first start is compared with the model's
     `firstStartN`, and for every run the next start (exact tick equality), the next `retry` kwarg and
     the outcome classification are compared with the model's `nextStartN` fed with the run's observed
     record (start / function end / end of the post-run patch / scripted result) and the observed
     reads of `idle_reset_time`.
The oracle is written from the property text over the function's (start, end) timestamps per
(uid, handler id), the object versions the operator processed, and the observed patch round trips;
it never consults the model. Clauses: O1 overlap, O2-O4 interval / sharp grid / error delay (not earlier; not later
unless within idle after an ESSENTIAL change the operator had seen: the fixed finding C10-F3 otherwise), O5 initial delay,
O6 idle, O7 failed for good / one-shot is the last, O8 the post-run patch takes no longer than its API requests,
O9 the task never ends by an exception (an API error in the post-run patch: the fixed finding C10-F4), O10 the schedule
goes on: the run that is due after the last observed one of a task nobody stopped does start.

Local harness features (not in harness/sim): a worker of its own (`python -m harness.props.c10 --worker`)
that adds a probe (module-attribute patching of `daemons._timer`, `execution.execute_handlers_once`,
`application.patch_and_check`, and a logging property `DaemonsMemory.idle_reset_time`) and abandons the
operator at the end of a scenario instead of stopping it gracefully (a graceful stop sets the stopper
of idle-only timers, which is C09's known stall F1); a copy of `pool._run_batch` for that worker.
"""
from __future__ import annotations

import ast
import asyncio
import contextlib
import copy
import json
import os
import subprocess
import sys
from concurrent.futures import ThreadPoolExecutor
from pathlib import Path
from typing import Any, Iterator

from .. import leanio, pyextract
from ..core import Ctx, ExtractError, load_corpus

ID = "C10"
LEVEL = "proof"
STRENGTH = "full"   # every clause has an unguarded theorem since 14876bf (C10-F3) and b8b3089 (C10-F4); that the schedule goes on is the oracle's (Sched is prefix-closed: the stopper truncates)
ENGINES = ["lean-model", "pyextract", "kopfsim"]
LEVEL_TEXT = (
    "FULL: every clause has an unguarded theorem. The former gaps C10-F1 .. C10-F4 are repaired in /repo (201494d, f6dee42, "
    "14876bf, b8b3089); their witnesses are regressions of the corpus and the old behaviours are named variants of the model with "
    "regression theorems. 'Unless idling postpones it' is exact: an event resets idling IFF it is an essential change "
    "(reset_iff_essential, UNGUARDED: the essence differs from the previously processed event's, or — on the first event of a memory — "
    "from the last-handled one / nothing is stored); same_essence_never_resets (the timer's own result patches, whatever is stored as "
    "last handled); view_is_created_or_essential + postponed_only_by_essential (for EVERY event history, idle_reset_time is the memory's "
    "creation time or a stamp of an essential change: a run is on time or exactly idle after such an instant); "
    "interval_exact_unless_changed (no change after e0 => start = max(patched+interval, e0.t+idle), no guard on last-handled any more); "
    "regressions nonessential_reset_regression, interval_postponed_by_own_patch_regression (variant resetCondLastHandled). "
    "A failed post-run patch (API error beyond the request's retries) does not end the task: failed_patch_keeps_timer (the loop goes on, "
    "the whole undelivered patch is carried), failed_patch_keeps_schedule (the run sequences are exactly Sched, so every law holds for the "
    "iteration after a failed patch with patched = the instant the patch gave up); regression raised_is_never_respawned_regression "
    "(variant OnPatchError.propagate: the raising iteration was the last, _runner's finally recorded the handler as stopped for ever; "
    "runner_marks_eq still ties that finally). That the schedule goes on at all is an oracle clause (next-run-missing, crashed), not a "
    "theorem: Sched is prefix-closed because the stopper may truncate it anywhere. "
    "Lean theorems about a state-carrying model of the _timer loop (the in-memory handler state "
    "incl. the series' `started` is carried from iteration to iteration; whether an iteration invokes the function is derived "
    "from it), for ALL configurations (interval/sharp/idle/initial_delay present or absent, backoff, errors mode, retries, "
    "timeout), all iteration records (any duration, any patch round trip), all result scripts and all timings of object "
    "changes: no_overlap; invoked_unless_failed (every iteration is a run until the timer fails for good, or the strict "
    "timeout/retries pre-check ends the series there; invoked_unless_failed_no_timeout), failed_is_last (per timer task: a "
    "re-spawned task starts afresh, AUDIT_B2 §D-12 = C11's subject), timeout_ends_series, timeout_before_first_call (AUDIT_B2 "
    "§D-11: idle >= timeout on a fresh object, never invoked: observation, C11's clause); interval_law / sharp_grid / "
    "error_delay_law at sequence level (the next iteration is a run and starts at patched + interval / the first grid point "
    "start + k*interval strictly after patched / max(patched, ended + delay), later only through the idle gate, exact form of "
    "the postponement); initial_delay_law (every spawn); idle_only_law; one_shot; idle_law (arbitrary view) and idle_law_full "
    "(UNGUARDED, idle_reset_time derived from an arbitrary history of processed events and any creation time of the memory: no "
    "run within idle after any essential change stamped at the instant its cycle reaches process_spawning_cause; the first "
    "event of a memory counts when the object differs from its last-handled essence — a restart on an unchanged handled object "
    "is not a change) and idle_law_recv (UNGUARDED: no run within idle after the instant an essential change is DETECTED, "
    "before any on.event handler of the cycle runs: idle_reset_time is stamped there and again in process_spawning_cause). "
    "The model is hand-written; its branch chain, state-reset condition, idle-reset condition "
    "(processing._detect_causes) and the two stamp sites of idle_reset_time, loop conditions, sleep arithmetic, the guard of the post-run "
    "patch (try / except CancelledError: raise / except Exception: remaining_patch = patch) and statement skeleton are re-extracted from the AST on "
    "every run and proved equal (T); every loop iteration of seeded closed-loop simulations is compared with it (S): "
    "invocation / pre-check decision, retry kwarg, state after the run incl. started, next start (tick-exact, also after a failed patch), carried state "
    "at the next iteration, what the post-run patch leaves in cause.patch for the next iteration (everything after a failure, only what "
    "was handed back otherwise), the real cause.reset of every event and every read of idle_reset_time against the derived view. "
    "execute_handler_once's timeout/retries checks are mirrored by hand (S-tied; C11 owns their grid). Assumes interval > 0.")
TIE = ("T: post-run branch chain + state-reset condition + idle-reset condition of _detect_causes + idle-gate/poll expressions + stopper guards + guard of the post-run patch + statement skeleton of "
       "daemons._timer re-extracted and proved equal to the model; S: per loop iteration of closed-loop simulations: invocation "
       "decision, carried state, exact tick equality of the next start, the patch carried over a failed delivery; per event the reset decision; per read the derived view")
THEOREMS = [("Kopf.Props.C10", "Kopf.C10." + n) for n in [
    "no_overlap_step", "no_overlap", "invoked_unless_failed", "failed_is_last", "failed_run_marks_state",
    "success_marks_state", "interval_law_step", "interval_law", "sharp_grid_step", "sharp_grid", "error_delay_step",
    "error_delay_law", "initial_delay_law", "idle_law", "idle_law_full", "idle_law_recv",
    "idle_only_law", "one_shot",
    "invoked_unless_failed_no_timeout", "timeout_ends_series", "first_attempt_not_timed_out",
    "essential_resets", "reset_iff_essential", "same_essence_never_resets", "nonessential_reset_regression",
    "view_is_created_or_essential", "postponed_only_by_essential", "interval_exact_unless_changed",
    "interval_postponed_by_own_patch_regression", "stopped_stays_respawnable", "failed_patch_keeps_timer",
    "failed_patch_keeps_schedule", "raised_is_never_respawned_regression",
    "sleep_undisturbed_is_sleepUntil", "sleep_early_only_when_woken", "sleep_left_none_iff_full", "capped_sleep_witness"]]
TIE_THEOREMS = [("Kopf.Tie.C10", "Kopf.C10.Tie." + n) for n in [
    "post_eq", "reset_top_eq", "at_top_eq", "restart_clock_eq", "at_start_eq", "forever_stopped_eq", "runner_marks_eq", "on_patch_error_eq", "reset_cond_eq", "resets_idle_eq", "stamp_sites_eq", "idle_cond_eq", "idle_delay_eq", "poll_cond_eq", "poll_delay_eq", "shape_eq", "stopper_guards_eq", "idle_step_eq", "poll_step_eq"]]
RULE = ("seeded scenarios: 1-2 timers on 1-2 objects, all 16 presence combinations of interval/sharp/idle/initial_delay "
        "(stratified), scripted results ok/ok+result/ok+patch/temporary(delay)/arbitrary/permanent with function durations "
        "0, <, =-1tick, =, =+1tick, > the interval (1.5x, 2x, 2.5x), backoff/retries/errors/timeout options (timeout below, at, above "
        "idle and interval), optional slow @kopf.on.event handler (the event is processed later than received), optional update handler "
        "(so that status patches are / are not idle resets), status subresource (2 PATCH round trips), object edits at random "
        "dyadic times, label toggles (respawn) and operator restarts for timers with an interval, backoff 0, 12 % with API errors in the PATCHes "
        "that deliver a timer's result: HTTP 500/503 injected 1-9 times into one of them (retried by the client within the request; 4+ exhaust "
        "it), or an outage from some instant on (500/503/connection lost before or after the server applied it/403/422, 1-40 requests: the "
        "undelivered patch is carried from run to run); 40 % of the scenarios are re-stated in another UNIT OF TIME (every duration and instant "
        "multiplied by 7, 60, 600, 3600, 6 h, 1, 2, 7, 30 or 365 days: timers of minutes .. years, every sleep requested from the real "
        "aiotime.sleep / asyncio timers under the virtual clock, histories of up to 20 years); a second pass replays a "
        "third of the scenarios with one extra edit placed exactly at an observed start, at start - idle, and 1 tick either "
        "side; one case = one loop iteration (or spawn -> first iteration), one processed event (reset decision) or one timer "
        "task's reads of idle_reset_time (derived view); distinct & non-trivial = distinct abstracted (option presence, carried "
        "state class, result kind or nothing-awakened, duration class, patch round trips, last-handled relation) tuples")
TRUSTED = ["harness/sim (virtual-time loop, fake API server with 1/64 s latency, scripted handlers)",
           "the C10 probe: attribute-level wrappers of daemons._timer / execute_handlers_once / patch_and_check and a "
           "logging property on DaemonsMemory.idle_reset_time",
           "pyextract vocabulary for daemons._timer (statement recognisers, arithmetic atoms)"]
ASSUMPTIONS = ["HARNESS ARTEFACT (open): in about one quick run in ten one simulation (since the unit-scaled histories of round h) reaches its wall limit while the loop thread WAITS in selectors.select under SimLoop._run_once — the virtual clock did not jump; it is counted (scenarios: idle-wait-in-select) and skipped, and so is a unit-scaled history that does not finish within the wall limit (scenarios: unit-scaled history over the wall limit); a stall of an unscaled scenario outside _timer is still a harness error (exit 2)",
               "interval > 0 and idle > 0 where present (interval = 0 divides by zero in the sharp branch / spins otherwise)",
               "a change counts as received when its cycle has passed `_detect_causes` (`Ev.recv`); the oracle takes the start of "
               "the cycle: the two coincide unless `@kopf.index` handlers or the start-up index wait take time (no index "
               "handlers are generated)",
               "the stopper is not modelled: it only truncates a run sequence (every loop condition carries it: stopper_guards_eq)",
               "an exception out of the post-run patch does not end the task (b8b3089; the guard is translator-tied): the instant the patch "
               "gave up is the iteration's `patched`; API errors are injected into the timers' result patches only, not into "
               "the requests of the object's processing cycle (an error there throttles the worker: C12's subject); whether the carried "
               "patch is delivered later, and what a repeated delivery overwrites, is C08's subject",
               "the oracle's bound on the duration of the post-run patch (its API requests x 1/64 s) is checked in scenarios without "
               "injected faults only",
               "initial_delay is a number (callables are evaluated by the same line of code)"]

F2_SIG = {"site": "processing.process_resource_causes",
          "shape": "idling is reset only after the on.event handlers of the cycle: a timer runs while an essential change is being processed"}
F1_SIG = {"site": "processing._detect_causes",
          "shape": "an essential change that restores the last-handled essence is not an idle reset"}
F3_SIG = {"site": "processing._detect_causes",
          "shape": "idling is reset by an event that is not an essential change (nothing stored as last handled, or a change not handled yet): "
                   "the next run is postponed / an idle-only timer runs again"}
F4_SIG = {"site": "daemons._timer / daemons._runner",
          "shape": "an API error escaping the post-run patch ends the timer task for good: no next run"}
# exceptions that are infrastructure errors of the post-run patch (kopf._cogs.clients.errors, aiohttp, asyncio)
INFRA_ERRORS = ("APIError", "APIServerError", "APIClientError", "APIForbiddenError", "APIUnauthorizedError", "APINotFoundError",
                "APIConflictError", "APITooManyRequestsError", "APISessionClosed", "ClientError", "ClientConnectionError",
                "ClientResponseError", "ServerDisconnectedError", "TimeoutError", "ClientOSError")

ROOT = Path(__file__).resolve().parent.parent.parent
TPS = 64
FUEL = 400


def ticks(x: float | None) -> int | None:
    if x is None:
        return None
    v = x * TPS
    r = round(v)
    if abs(v - r) > 1e-6:
        raise ValueError(f"time {x!r} is not a multiple of 1/{TPS} s")
    return int(r)


# =================================================================================================
# (T) the translator
# =================================================================================================
ARITH_ATOMS = {
    "clock()": "a.now",
    "started": "a.started",
    "handler.interval": "a.interval",
    "handler.idle": "a.idle",
    "memory.idle_reset_time": "a.reset",
}
POST_VOCAB = {
    "state.done": "a.done",
    "handler.interval is not None": "a.hasInterval",
    "handler.sharp": "a.sharp",
    "handler.idle is not None": "a.hasIdle",
}
START_VOCAB = {
    "state[handler.id].retries": "a.anyAttempt",
}
TOP_VOCAB = {
    "state.done": "a.done",
    "state.counts.failure": "a.anyFailure",
}
SLEEP_WAKEUPS = {"stopper.async_event", "cause.stopper.async_event"}


def _arith(e: ast.expr, env: dict[str, ast.expr]) -> str:
    """Python arithmetic over the atom vocabulary → Lean Int term (`%` is Int.emod: equal for a positive divisor)."""
    text = pyextract.norm(e)
    if text in ARITH_ATOMS:
        return ARITH_ATOMS[text]
    if isinstance(e, ast.Name) and e.id in env:
        return _arith(env[e.id], env)
    if isinstance(e, ast.BinOp) and isinstance(e.op, (ast.Add, ast.Sub, ast.Mod)):
        op = {ast.Add: "+", ast.Sub: "-", ast.Mod: "%"}[type(e.op)]
        return f"({_arith(e.left, env)} {op} {_arith(e.right, env)})"
    raise ExtractError(f"arithmetic outside the vocabulary: `{text}`")


def _cmp(e: ast.expr, env: dict[str, ast.expr]) -> str:
    if isinstance(e, ast.Compare) and len(e.ops) == 1 and isinstance(e.ops[0], (ast.Lt, ast.LtE)):
        op = "<" if isinstance(e.ops[0], ast.Lt) else "≤"
        return f"decide ({_arith(e.left, env)} {op} {_arith(e.comparators[0], env)})"
    raise ExtractError(f"comparison outside the accepted shapes: `{pyextract.norm(e)}`")


def _sleep_arg(st: ast.stmt) -> ast.expr | None:
    """`await aiotime.sleep(X, wakeup=stopper.async_event)` → X"""
    if not (isinstance(st, ast.Expr) and isinstance(st.value, ast.Await) and isinstance(st.value.value, ast.Call)):
        return None
    call = st.value.value
    if pyextract.norm(call.func) != "aiotime.sleep" or len(call.args) != 1:
        return None
    kws = {k.arg: pyextract.norm(k.value) for k in call.keywords}
    if set(kws) != {"wakeup"} or kws["wakeup"] not in SLEEP_WAKEUPS:
        raise ExtractError(f"sleep with unexpected wake-up: `{pyextract.norm(st)}`")
    return call.args[0]


def _post_result(stmts: list[ast.stmt]) -> str | None:
    """What one branch of the post-run chain does → a Lean `Post` term."""
    env: dict[str, ast.expr] = {}
    body = list(stmts)
    while body and isinstance(body[0], ast.Assign) and len(body[0].targets) == 1 and isinstance(body[0].targets[0], ast.Name):
        env[body[0].targets[0].id] = body[0].value
        body = body[1:]
    if len(body) != 1:
        return None
    st = body[0]
    if isinstance(st, ast.Break):
        return "Post.stop"
    arg = _sleep_arg(st)
    if arg is not None:
        if pyextract.norm(arg) == "state.delays":
            return "Post.sleep a.delays"
        return f"Post.sleep {_arith(arg, env)}"
    if isinstance(st, ast.While) and not st.orelse and len(st.body) == 1:
        inner = _sleep_arg(st.body[0])
        if inner is not None and _poll_test(st.test) is not None:
            return f"Post.idlePoll {_arith(inner, env)}"
    return None


def _poll_test(test: ast.expr) -> ast.expr | None:
    """`memory.idle_reset_time <= started and not stopper.is_set()` → the comparison (the stopper conjunct is required)"""
    if isinstance(test, ast.BoolOp) and isinstance(test.op, ast.And) and len(test.values) == 2 \
            and pyextract.norm(test.values[0]) == "memory.idle_reset_time <= started" \
            and pyextract.norm(test.values[1]) == "not stopper.is_set()":
        return test.values[0]
    return None


def _call_text(st: ast.stmt) -> str:
    """normalised callee of `x = await f(...)` / `f(...)` / `x = f(...)`"""
    v: Any = st.value if isinstance(st, (ast.Assign, ast.Expr)) else None
    if isinstance(v, ast.Await):
        v = v.value
    return pyextract.norm(v.func) if isinstance(v, ast.Call) else ""


# `seen` is defaulted to `new` before the condition (the shape before 14876bf): it is never None there
RESET_VOCAB_DEFAULTED = {
    "bool(diff)": "a.diffLastHandled",
    "bool(diffs.diff(seen, new))": "a.diffSeen",
}
# no defaulting (since 14876bf): `diffs.diff(None, new)` is not empty — the expression must say what the first sight is
RESET_VOCAB = {
    "bool(diff)": "a.diffLastHandled",
    "seen is None": "a.seenIsNone",
    "bool(diffs.diff(seen, new))": "(a.seenIsNone || a.diffSeen)",
}


def _extract_reset(ctx: Ctx) -> tuple[str, list[str]]:
    """`processing._detect_causes`: the `reset=` argument of the spawning cause, the bookkeeping of the last-seen
    essence it reads, and `process_spawning_cause`'s write of idle_reset_time under `cause.reset`."""
    tree = pyextract.parse_file(ctx.repo / "kopf/_core/reactor/processing.py")
    fn = pyextract.find_def(tree, "_detect_causes")
    stmts = pyextract.body_without_docstring(fn)
    texts = [pyextract.norm(st) for st in stmts]
    calls = [n for n in ast.walk(fn) if isinstance(n, ast.Call) and pyextract.norm(n.func) == "causes.detect_spawning_cause"]
    if len(calls) != 1:
        raise ExtractError("_detect_causes: detect_spawning_cause call not found")
    kws = {k.arg: k.value for k in calls[0].keywords}
    if "reset" not in kws:
        raise ExtractError("_detect_causes: the spawning cause gets no `reset=`")
    # the condition may be bound to ONE local name first (`essentially_changed = …; reset=essentially_changed`)
    locals_: dict[str, ast.expr] = {}
    local_text = None
    if isinstance(kws["reset"], ast.Name):
        binds = [st for st in stmts if isinstance(st, ast.Assign) and len(st.targets) == 1 and isinstance(st.targets[0], ast.Name)
                 and st.targets[0].id == kws["reset"].id]
        if len(binds) != 1:
            raise ExtractError(f"_detect_causes: `reset={kws['reset'].id}` is not bound exactly once")
        locals_[kws["reset"].id] = binds[0].value
        local_text = pyextract.norm(binds[0])
    defaulting = "seen = new if seen is None else seen"
    want = ["diff = diffs.diff(old, new)", "seen = memory.daemons_memory.last_seen_essence"] \
        + ([defaulting] if defaulting in texts else []) + ([local_text] if local_text else []) \
        + ["memory.daemons_memory.last_seen_essence = new"]
    pos = []
    for w in want:
        if texts.count(w) != 1:
            raise ExtractError(f"_detect_causes: expected exactly one `{w}`")
        pos.append(texts.index(w))
    if pos != sorted(pos):
        raise ExtractError("_detect_causes: the last-seen bookkeeping is out of order")
    for n in ast.walk(fn):
        if isinstance(n, (ast.Assign, ast.AugAssign, ast.AnnAssign)):
            t = pyextract.norm(n)
            if ("last_seen_essence" in t or t.startswith(("seen =", "diff =", "new =", "old =")) or (local_text and t.startswith(local_text.split("=")[0] + "="))) \
                    and t not in want and not t.startswith(("new = settings", "old = settings")):
                raise ExtractError(f"_detect_causes: unexpected assignment `{t[:120]}`")
    vocab = RESET_VOCAB_DEFAULTED if defaulting in texts else RESET_VOCAB
    cond = pyextract.BoolTranslator(vocab, locals_).tr(kws["reset"])
    stamp = "memory.daemons_memory.idle_reset_time = asyncio.get_running_loop().time()"
    psc = pyextract.find_def(tree, "process_spawning_cause")
    ok = [st for st in psc.body if isinstance(st, ast.If) and pyextract.norm(st.test) == "cause.reset" and not st.orelse
          and len(st.body) == 1 and pyextract.norm(st.body[0]) == stamp]
    # the early stamp: in process_resource_causes, after `_detect_causes(...)` and before any handler of the cycle is invoked
    prc = pyextract.find_def(tree, "process_resource_causes")
    body = pyextract.body_without_docstring(prc)
    texts = [pyextract.norm(st) for st in body]
    early = [k for k, st in enumerate(body) if isinstance(st, ast.If) and not st.orelse and len(st.body) == 1
             and pyextract.norm(st.test) == "spawning_cause is not None and spawning_cause.reset" and pyextract.norm(st.body[0]) == stamp]
    detect = [k for k, t in enumerate(texts) if "_detect_causes(" in t]
    first_handlers = [k for k, st in enumerate(body) if any(
        isinstance(n, ast.Await) for n in ast.walk(st))]
    writes = [n for n in ast.walk(tree) if isinstance(n, ast.Assign) and "idle_reset_time" in pyextract.norm(n.targets[0])]
    sites = []
    if len(early) == 1 and len(detect) == 1 and detect[0] < early[0] and (not first_handlers or early[0] < min(first_handlers)):
        sites.append("StampSite.afterDetect")
    if len(ok) == 1:
        sites.append("StampSite.spawningCause")
    if len(writes) != len(sites):
        raise ExtractError("processing: idle_reset_time is written at a place, or under a condition, outside the two known stamp sites")
    return cond, sites


RUNNER_VOCAB = {"stopper.reason is None": "a.reasonIsNone"}


def _extract_runner(tree: ast.Module) -> str:
    """`daemons._runner`: `_timer` is awaited inside a `try:` with no handler (an exception ends the task), and the
    `finally:` begins with `if <cond>: memory.forever_stopped.add(handler.id)` → the condition."""
    fn = pyextract.find_def(tree, "_runner")
    tries = [st for st in pyextract.body_without_docstring(fn) if isinstance(st, ast.Try)]
    if len(tries) != 1 or tries[0].handlers or tries[0].orelse or not tries[0].finalbody:
        raise ExtractError("_runner: expected one `try: … finally:` without except-handlers around the task wrappers")
    calls = [n for n in ast.walk(ast.Module(body=tries[0].body, type_ignores=[])) if isinstance(n, ast.Call) and pyextract.norm(n.func) == "_timer"]
    if len(calls) != 1:
        raise ExtractError("_runner: `_timer(...)` is not awaited exactly once inside the try")
    marks = [st for st in tries[0].finalbody if isinstance(st, ast.If) and not st.orelse and len(st.body) == 1
             and pyextract.norm(st.body[0]) == "memory.forever_stopped.add(handler.id)"]
    if len(marks) != 1 or marks[0] is not tries[0].finalbody[0]:
        raise ExtractError("_runner: the `finally:` does not begin with the forever_stopped mark")
    return pyextract.BoolTranslator(RUNNER_VOCAB).tr(marks[0].test)


def _is_patch_call(st: ast.stmt) -> bool:
    """`_, remaining_patch = await application.patch_and_check(...)`"""
    return isinstance(st, ast.Assign) and _call_text(st) == "application.patch_and_check" and len(st.targets) == 1 \
        and pyextract.norm(st.targets[0]) in ("(_, remaining_patch)", "_, remaining_patch")


def _guarded_patch(st: ast.stmt) -> bool:
    """b8b3089: `try: <the patch call>  except asyncio.CancelledError: raise  except Exception [as e]: [logger.…(…)]
    remaining_patch = patch` — nothing else: the cancellation passes, every other exception keeps the WHOLE patch and falls
    through to the statement after the `try` (no return/break/continue/raise, no other assignment)."""
    if not isinstance(st, ast.Try) or st.orelse or st.finalbody or len(st.body) != 1 or not _is_patch_call(st.body[0]):
        return False
    if len(st.handlers) != 2:
        raise ExtractError("_timer: the guard of the post-run patch has other handlers than CancelledError / Exception")
    h0, h1 = st.handlers
    if h0.type is None or pyextract.norm(h0.type) != "asyncio.CancelledError" or len(h0.body) != 1 \
            or not (isinstance(h0.body[0], ast.Raise) and h0.body[0].exc is None):
        raise ExtractError("_timer: the cancellation is not re-raised first by the guard of the post-run patch")
    if h1.type is None or pyextract.norm(h1.type) != "Exception":
        raise ExtractError(f"_timer: the guard of the post-run patch catches `{pyextract.norm(h1.type) if h1.type else 'everything'}`")
    rest = [b for b in h1.body if not (isinstance(b, ast.Expr) and isinstance(b.value, ast.Call)
                                       and pyextract.norm(b.value.func).startswith("logger."))]
    if [pyextract.norm(b) for b in rest] != ["remaining_patch = patch"]:
        raise ExtractError("_timer: on an error of the post-run patch something else than `remaining_patch = patch` is done")
    return True


def extract(ctx: Ctx) -> None:
    reset_cond, stamp_sites = _extract_reset(ctx)
    tree = pyextract.parse_file(ctx.repo / "kopf/_core/engines/daemons.py")
    runner_marks = _extract_runner(tree)
    fn = pyextract.find_def(tree, "_timer")
    body = pyextract.body_without_docstring(fn)
    aliases = {"resource = cause.resource", "stopper = cause.stopper", "logger = cause.logger", "patch = cause.patch",
               "body = cause.body", "clock = asyncio.get_running_loop().time"}
    prologue: list[str] = []
    loop: ast.While | None = None
    for st in body:
        text = pyextract.norm(st)
        if text in aliases:
            continue
        if isinstance(st, ast.If) and pyextract.norm(st.test) == "handler.initial_delay is not None" and not st.orelse:
            if len(st.body) != 2 or pyextract.norm(st.body[0]) != \
                    "delay = handler.initial_delay(**cause.kwargs) if callable(handler.initial_delay) else handler.initial_delay":
                raise ExtractError(f"initial delay block changed: `{text[:160]}`")
            arg = _sleep_arg(st.body[1])
            if arg is None or pyextract.norm(arg) != "delay":
                raise ExtractError(f"initial delay is not slept: `{pyextract.norm(st.body[1])}`")
            prologue.append("Step.initialDelay")
            continue
        if text == "state = progression.State.from_scratch().with_handlers([handler])":
            prologue.append("Step.freshState")
            continue
        if isinstance(st, ast.While):
            if loop is not None or pyextract.norm(st.test) != "not stopper.is_set()" or st.orelse:
                raise ExtractError(f"unexpected loop in _timer: `{pyextract.norm(st.test)}`")
            loop = st
            continue
        raise ExtractError(f"_timer: statement outside the skeleton: `{text[:160]}`")
    if loop is None:
        raise ExtractError("_timer: the main loop is gone")
    steps: list[str] = []
    idle_cond = idle_delay = post_body = reset_top = restart_clock = forever = on_patch_error = None
    for st in loop.body:
        text = pyextract.norm(st)
        if text == "await asyncio.sleep(0)" and not steps:
            steps.append("Step.yieldToLoop")     # a zero-time yield at the top of every iteration: no time passes
        elif isinstance(st, ast.If) and not st.orelse and len(st.body) == 1 and reset_top is None and steps in ([], ["Step.yieldToLoop"]) \
                and pyextract.norm(st.body[0]) == "state = progression.State.from_scratch().with_handlers([handler])":
            reset_top = pyextract.BoolTranslator(TOP_VOCAB).tr(st.test)     # when the carried state is replaced by a fresh one
            steps.append("Step.resetUnlessFailed")
        elif isinstance(st, ast.If) and pyextract.norm(st.test) == "handler.idle is not None" and not st.orelse:
            if len(st.body) != 2 or not isinstance(st.body[0], ast.While) or st.body[0].orelse \
                    or pyextract.norm(st.body[1]) != "if stopper.is_set():\n    continue":
                raise ExtractError(f"idle gate changed: `{text[:200]}`")
            w = st.body[0]
            if not (isinstance(w.test, ast.BoolOp) and isinstance(w.test.op, ast.And) and len(w.test.values) == 2
                    and pyextract.norm(w.test.values[0]) == "not stopper.is_set()"):
                raise ExtractError(f"idle gate condition changed: `{pyextract.norm(w.test)}`")
            idle_cond = _cmp(w.test.values[1], {})
            env: dict[str, ast.expr] = {}
            if len(w.body) != 2 or not isinstance(w.body[0], ast.Assign) or not isinstance(w.body[0].targets[0], ast.Name):
                raise ExtractError(f"idle gate body changed: `{pyextract.norm(w)[:200]}`")
            env[w.body[0].targets[0].id] = w.body[0].value
            arg = _sleep_arg(w.body[1])
            if arg is None:
                raise ExtractError(f"idle gate does not sleep: `{pyextract.norm(w.body[1])}`")
            idle_delay = _arith(arg, env)
            steps.append("Step.idleGate")
        elif isinstance(st, ast.If) and not st.orelse and len(st.body) == 1 and restart_clock is None \
                and steps and steps[-1] == "Step.idleGate" \
                and pyextract.norm(st.body[0]) == "state = progression.State.from_scratch().with_handlers([handler])":
            restart_clock = pyextract.BoolTranslator(START_VOCAB).tr(st.test)   # a series without an attempt restarts its clock
            steps.append("Step.restartClockIfNoAttempt")
        elif isinstance(st, ast.If) and not st.orelse and len(st.body) == 1 and forever is None \
                and steps and steps[-1] == "Step.withOutcomes" \
                and pyextract.norm(st.body[0]) == "memory.forever_stopped.add(handler.id)":
            forever = pyextract.BoolTranslator(TOP_VOCAB).tr(st.test)           # a final failure: never spawned again in this process
            steps.append("Step.markForeverStopped")
        elif text == "started = clock()":
            steps.append("Step.stampStart")
        elif isinstance(st, ast.Assign) and _call_text(st) == "execution.execute_handlers_once" \
                and pyextract.norm(st.targets[0]) == "outcomes":
            steps.append("Step.execute")
        elif text == "state = state.with_outcomes(outcomes)":
            steps.append("Step.withOutcomes")
        elif text == "progression.deliver_results(outcomes=outcomes, patch=patch)":
            steps.append("Step.deliver")
        elif _is_patch_call(st) and on_patch_error is None:
            steps.append("Step.patch")
            on_patch_error = "OnPatchError.propagate"       # unguarded: an exception leaves `_timer`
        elif isinstance(st, ast.Try) and on_patch_error is None and _guarded_patch(st):
            steps.append("Step.patch")
            on_patch_error = "OnPatchError.keepPatch"
        elif text == "patch = cause.patch = patches.Patch(remaining_patch, body=body)":
            steps.append("Step.rebindPatch")
        elif isinstance(st, ast.If) and pyextract.norm(st.test) == "not state.done":
            tr = pyextract.BoolTranslator(POST_VOCAB)
            chain = pyextract.if_chain([st], tr, _post_result, ())
            post_body = pyextract.chain_to_lean(chain)
            steps.append("Step.post")
        else:
            raise ExtractError(f"_timer loop: statement outside the skeleton: `{text[:160]}`")
    if idle_cond is None or idle_delay is None or post_body is None or reset_top is None or restart_clock is None or forever is None \
            or on_patch_error is None:
        raise ExtractError("_timer loop: state reset, idle gate, post-run patch or post-run chain not found")
    # the poll loop's condition/sleep are inside the chain; extract them separately for their own tie
    poll = [n for n in ast.walk(loop) if isinstance(n, ast.While) and _poll_test(n.test) is not None]
    if len(poll) != 1:
        raise ExtractError("_timer: idle-only poll loop (with its stopper guard) not found")
    poll_cond = _cmp(_poll_test(poll[0].test), {})
    parg = _sleep_arg(poll[0].body[0]) if len(poll[0].body) == 1 else None
    if parg is None:
        raise ExtractError("_timer: the poll loop does not sleep")
    poll_delay = _arith(parg, {})
    out = pyextract.HEADER.format(src="kopf/_core/engines/daemons.py (_timer)")
    out += "import Kopf.Model.C10_Timer\nnamespace Kopf.C10.Extracted\nopen Kopf.C10\n\n"
    out += f"def prologue : List Step := [{', '.join(prologue)}]\n\n"
    out += f"def loopBody : List Step := [{', '.join(steps)}]\n\n"
    out += "/-- the post-run branch chain -/\n"
    out += f"def post (a : PostAtoms) : Post :=\n    {post_body}\n\n"
    out += "/-- the carried state is replaced by a fresh one at the top of the loop -/\n"
    out += f"def resetAtTop (a : TopAtoms) : Bool := {reset_top}\n\n"
    out += f"def restartsClock (a : StartAtoms) : Bool := {restart_clock}\n\n"
    out += f"def marksForeverStopped (a : TopAtoms) : Bool := {forever}\n\n"
    out += "/-- daemons._runner, `finally:` the ended task's handler is never spawned again -/\n"
    out += f"def runnerMarksForever (a : RunnerAtoms) : Bool := {runner_marks}\n\n"
    out += "/-- what an exception out of the post-run patch does -/\n"
    out += f"def onPatchError : OnPatchError := {on_patch_error}\n\n"
    out += "/-- processing._detect_causes: the event resets idling -/\n"
    out += f"def resetCond (a : ResetAtoms) : Bool := {reset_cond}\n\n"
    out += f"def stampSites : List StampSite := [{', '.join(stamp_sites)}]\n\n"
    out += f"def idleCond (a : GateAtoms) : Bool := {idle_cond}\n\n"
    out += f"def idleDelay (a : GateAtoms) : Int := {idle_delay}\n\n"
    out += f"def pollCond (a : GateAtoms) : Bool := {poll_cond}\n\n"
    out += f"def pollDelay (a : GateAtoms) : Int := {poll_delay}\n\n"
    # the main loop's, the idle gate's and the poll loop's conditions were all matched WITH `not stopper.is_set()` above
    out += "def stopperGuards : List LoopId := [LoopId.main, LoopId.idleGate, LoopId.idlePoll]\n\n"
    out += "end Kopf.C10.Extracted\n"
    leanio.write_generated("Kopf/Extracted/C10.lean", out)


# =================================================================================================
# the worker: scenario runner with the C10 probe
# =================================================================================================
class Probe:
    """Attribute-level observation of one timer task at a time (no source hooks)."""

    def __init__(self) -> None:
        self.tasks: dict[Any, dict] = {}
        self.instances: list[dict] = []
        self.writes: list[dict] = []
        self.events: list[dict] = []
        self.detects: list[dict] = []
        self._mems: list[Any] = []

    @contextlib.contextmanager
    def installed(self) -> Iterator[None]:
        from kopf._core.actions import application, execution
        from kopf._core.engines import daemons
        from kopf._core.intents import handlers as handlers_
        from ..sim import runner
        probe = self
        from kopf._core.reactor import processing
        orig_timer, orig_exec, orig_pac = daemons._timer, execution.execute_handlers_once, application.patch_and_check
        orig_psc = processing.process_spawning_cause
        orig_det = processing._detect_causes

        def _detect_causes(**kw: Any) -> Any:
            out = orig_det(**kw)
            try:
                sc_ = out.spawning_cause
                if sc_ is not None:
                    from ..sim import observe as _obs_mod
                    cyc = _obs_mod._cycle.get()
                    body = json.loads(json.dumps(dict(kw["body"]), default=repr))
                    ess, lh = _norms(body)
                    probe.detects.append({"uid": body.get("metadata", {}).get("uid"), "inc": runner._incarnation.get(), "t": now(),
                                          "cyc": None if cyc is None else cyc.get("i"), "reset": bool(sc_.reset), "ess_norm": ess,
                                          "lh_norm": lh, "mem": id(kw["memory"].daemons_memory)})
                    probe._mems.append(kw["memory"].daemons_memory)
            except Exception as e:  # noqa: BLE001
                probe.detects.append({"error": repr(e)})
            return out

        async def process_spawning_cause(**kw: Any) -> Any:
            cause, memory = kw["cause"], kw["memory"]
            try:
                body = json.loads(json.dumps(dict(cause.body), default=repr))
                ess, lh = _norms(body)
                from ..sim import observe as _obs_mod
                cyc = _obs_mod._cycle.get()
                probe.events.append({"uid": body.get("metadata", {}).get("uid"), "inc": runner._incarnation.get(), "t": now(),
                                     "cyc": None if cyc is None else cyc.get("i"),
                                     "reset": bool(cause.reset), "ess_norm": ess, "lh_norm": lh, "mem": id(memory.daemons_memory)})
                probe._mems.append(memory.daemons_memory)
            except Exception as e:  # noqa: BLE001
                probe.events.append({"error": repr(e)})
            return await orig_psc(**kw)

        def now() -> float:
            return asyncio.get_running_loop().time()

        async def _timer(**kw: Any) -> None:
            task = asyncio.current_task()
            handler, cause, memory = kw["handler"], kw["cause"], kw["memory"]
            inst = {"uid": cause.body.metadata.uid, "id": str(handler.id), "inc": runner._incarnation.get(), "spawn": now(),
                    "mem": id(memory), "iters": [], "reads": [], "exit": None, "how": None}
            probe.tasks[task] = inst
            probe.instances.append(inst)
            probe._mems.append(memory)
            try:
                await orig_timer(**kw)
                inst["how"] = "returned"
            except asyncio.CancelledError:
                inst["how"] = "cancelled"
                raise
            except BaseException as e:  # noqa: BLE001
                inst["how"] = "error:" + type(e).__name__
                raise
            finally:
                inst["exit"] = now()
                inst["stop_reason"] = repr(getattr(cause.stopper, "reason", None))
                probe.tasks.pop(task, None)

        async def execute_handlers_once(*a: Any, **kw: Any) -> Any:
            inst = probe.tasks.get(asyncio.current_task())
            hs = list(kw.get("handlers") or [])
            if inst is None or len(hs) != 1 or not isinstance(hs[0], handlers_.TimerHandler) or inst.get("busy"):
                return await orig_exec(*a, **kw)
            st = kw["state"][hs[0].id]
            from ..sim import simloop as _sl
            off = _sl.WALL.now_s() - now()      # wall clock vs loop clock (0 within one loop)
            dl = None if st.delayed is None else (st.delayed - _sl.EPOCH).total_seconds() - off
            it: dict[str, Any] = {"t0": now(), "attempt": int(st.retries or 0), "t1": None, "p0": None, "p1": None,
                                  "state": {"started": (st.started - _sl.EPOCH).total_seconds() - off,
                                            "retries": int(st.retries or 0), "success": bool(st.success), "failure": bool(st.failure),
                                            "delayed": dl}}
            try:    # what `cause.patch` carries into this iteration, before the run adds to it
                it["carried"] = _leaves(kw["cause"].patch)
            except Exception as e:  # noqa: BLE001
                it["carried"] = ["error:" + repr(e)]
            if len(inst["iters"]) >= 2000 and inst["iters"][-2000]["t0"] == it["t0"]:
                inst["spin"] = True     # 2000 runs within one instant: stop observing a loop that never suspends
                raise RuntimeError("C10 probe: the timer loop runs without ever suspending")
            inst["iters"].append(it)
            inst["busy"] = True
            try:
                out = await orig_exec(*a, **kw)
            finally:
                inst["busy"] = False
            it["t1"] = now()
            o = out.get(hs[0].id)
            it["outcome"] = None if o is None else {"final": bool(o.final), "delay": o.delay,
                                                   "exc": type(o.exception).__name__ if o.exception is not None else None}
            return out

        async def patch_and_check(**kw: Any) -> Any:
            inst = probe.tasks.get(asyncio.current_task())
            it = inst["iters"][-1] if inst is not None and inst["iters"] else None
            if it is None or it["t1"] is None or it["p0"] is not None:
                return await orig_pac(**kw)
            it["p0"] = now()
            it["patch"] = bool(kw["patch"])
            it["handed"] = _leaves(kw["patch"])
            it["handed_fns"] = len(kw["patch"].fns)
            try:
                out = await orig_pac(**kw)
            except asyncio.CancelledError:
                raise
            except BaseException as e:  # noqa: BLE001  (the instant the patch gave up, and with what)
                it["p1"] = now()
                it["perr"] = type(e).__name__
                raise
            it["p1"] = now()
            rem = out[1] if isinstance(out, tuple) and len(out) == 2 else None
            it["handed_back"] = _leaves(rem) if rem is not None else []
            return out

        def irt_get(self: Any) -> float:
            v = self.__dict__["_c10_irt"]
            try:
                inst = probe.tasks.get(asyncio.current_task())
            except RuntimeError:
                inst = None
            if inst is not None:
                t = now()
                if not inst["reads"] or inst["reads"][-1] != [t, v]:
                    inst["reads"].append([t, v])
            return v

        def irt_set(self: Any, v: float) -> None:
            self.__dict__["_c10_irt"] = v
            try:
                t = now()
            except RuntimeError:
                t = None
            probe.writes.append({"mem": id(self), "t": t, "v": v})
            probe._mems.append(self)

        processing.process_spawning_cause = process_spawning_cause  # type: ignore[assignment]
        processing._detect_causes = _detect_causes  # type: ignore[assignment]
        daemons._timer = _timer  # type: ignore[assignment]
        execution.execute_handlers_once = execute_handlers_once  # type: ignore[assignment]
        application.patch_and_check = patch_and_check  # type: ignore[assignment]
        daemons.DaemonsMemory.idle_reset_time = property(irt_get, irt_set)  # type: ignore[assignment]
        try:
            yield
        finally:
            processing.process_spawning_cause = orig_psc  # type: ignore[assignment]
            processing._detect_causes = orig_det  # type: ignore[assignment]
            daemons._timer = orig_timer  # type: ignore[assignment]
            execution.execute_handlers_once = orig_exec  # type: ignore[assignment]
            application.patch_and_check = orig_pac  # type: ignore[assignment]
            del daemons.DaemonsMemory.idle_reset_time

    def export(self) -> dict:
        insts = []
        for i in self.instances:
            insts.append({k: v for k, v in i.items() if k not in ("busy",)})
        return {"instances": insts, "writes": self.writes, "events": self.events, "detects": self.detects}


def _leaves(d: Any, prefix: str = "") -> list[str]:
    """the merge-patch content of a patch as sorted `path=value` strings"""
    out: list[str] = []
    if isinstance(d, dict) and not d and not prefix:
        return []       # an empty patch
    if isinstance(d, dict) and d:
        for k in sorted(d, key=str):
            out += _leaves(d[k], f"{prefix}/{k}")
        return out
    try:
        return [f"{prefix}={json.dumps(d, sort_keys=True, default=repr)}"]
    except Exception:  # noqa: BLE001
        return [f"{prefix}={d!r}"]


def _essence(body: dict) -> Any:
    """What the property calls the object's essential content (independent of kopf's own essence code):
    spec, labels, foreign annotations."""
    meta = body.get("metadata", {})
    ann = {k: v for k, v in (meta.get("annotations") or {}).items() if not k.startswith("kopf.zalando.org/")}
    return {"spec": body.get("spec"), "labels": meta.get("labels") or {}, "annotations": ann,
            "other": {k: v for k, v in body.items() if k not in ("metadata", "spec", "status", "apiVersion", "kind")}}


def _drop_empty(x: Any) -> Any:
    if isinstance(x, dict):
        out = {k: _drop_empty(v) for k, v in x.items()}
        return {k: v for k, v in out.items() if v not in ({}, None)}
    return x


def _norms(body: dict) -> tuple[Any, Any]:
    """(essence of the body, last-handled essence it carries or None), both in one normal form"""
    e = _essence(body)
    cur = _drop_empty({"spec": e["spec"], "metadata": {"labels": e["labels"], "annotations": e["annotations"]}, **e["other"]})
    ann = (body.get("metadata", {}).get("annotations") or {}).get("kopf.zalando.org/last-handled-configuration")
    if ann is None:
        return cur, None
    try:
        return cur, _drop_empty(json.loads(ann))
    except ValueError:
        return cur, None


def _lh_same(body: dict) -> bool | None:
    """Does the object's essence equal the last-handled essence it carries? (None: nothing stored.)
    Used only to classify an idle-clause failure into the known finding C10-F1."""
    ann = (body.get("metadata", {}).get("annotations") or {}).get("kopf.zalando.org/last-handled-configuration")
    if ann is None:
        return None
    try:
        lh = json.loads(ann)
    except ValueError:
        return None
    e = _essence(body)
    cur = {"spec": e["spec"], "metadata": {"labels": e["labels"], "annotations": e["annotations"]}, **e["other"]}
    return _drop_empty(lh) == _drop_empty(cur)


def run_one(sc: dict, wall: float) -> dict:
    from ..sim import observe, scenario, simloop

    class Sim10(scenario.Sim):
        def mark(self, what: str, **kw: Any) -> None:
            super().mark(what, **kw)
            if what == "end":   # abandon instead of a graceful stop (which sets every timer's stopper: C09 F1)
                for op in self.ops.values():
                    if op.alive and not op.killed:
                        op.kill()
                        self.obs.incarnation_killed(op)

    if not all(simloop.dyadic(e[0]) for e in sc.get("timeline", [])):
        raise ValueError("non-dyadic time in the scenario")
    holder: dict[str, Any] = {}
    probe = Probe()

    async def main() -> dict:
        sim = Sim10(copy.deepcopy(sc))
        holder["sim"] = sim
        if sc.get("unit", 1) != 1:
            # asyncio fires a timer when `when < time() + clock_resolution` (1e-9 s for the monotonic clock): beyond 2**24 s
            # (194 days) that sum rounds back to time() and, the virtual clock standing still, a due timer would never fire.
            # Every instant of a scenario is a multiple of 1/64 s, so 2**-12 s resolves them all up to 2**40 s.
            asyncio.get_running_loop()._clock_resolution = 2.0 ** -12     # type: ignore[attr-defined]
        with observe.installed(sim.obs), probe.installed():
            return await sim.run()

    # the one periodic constant of the operator that is not a setting: application.apply() re-visits an object every 10 min
    # while it waits (for a stopped timer whose function still runs, here): it is re-stated in the scenario's unit as well
    from kopf._core.actions import application as _application
    keepalive = _application.WAITING_KEEPALIVE_INTERVAL
    try:
        _application.WAITING_KEEPALIVE_INTERVAL = keepalive * int(sc.get("unit", 1))
        tr = simloop.run_sim(main, wall_limit=wall)
    except (simloop.SimDeadlock, simloop.SimStall) as e:
        sim = holder.get("sim")
        tr = sim.obs.trace() if sim is not None else {}
        tr["sim_error"] = f"{type(e).__name__}: {e}"
    finally:
        _application.WAITING_KEEPALIVE_INTERVAL = keepalive
    calls = [{k: c.get(k) for k in ("t", "t_end", "uid", "id", "retry", "outcome", "delay", "n", "inc")}
             for c in tr.get("calls", []) if c.get("kind") == "timer"]
    cycles = [{"i": c["i"], "t0": c["t0"], "t1": c.get("t1"), "uid": c["uid"], "name": c["body"].get("metadata", {}).get("name"),
               "event_type": c["event_type"], "rv": c["rv"], "ess": _essence(c["body"]),
               "marked": bool(c["body"].get("metadata", {}).get("deletionTimestamp")), "inc": c["inc"],
               "lh_same": _lh_same(c["body"]), "ess_norm": _norms(c["body"])[0], "lh_norm": _norms(c["body"])[1]}
              for c in tr.get("cycles", [])]
    patches = [{"t": r.get("t"), "path": r.get("path"), "resp": r.get("response"), "fault": bool(r.get("fault"))}
               for r in tr.get("requests", []) if r.get("method") == "PATCH"]
    return {"calls": calls, "cycles": cycles, "marks": tr.get("marks", []), "sim_error": tr.get("sim_error"),
            "c10": probe.export(), "patch_requests": len(patches), "patches": patches}


def _worker_main(wall: float) -> None:
    for line in sys.stdin:
        line = line.strip()
        if not line:
            continue
        item = json.loads(line)
        sys.stderr.write(f"@@BEGIN {item['i']}\n")
        sys.stderr.flush()
        try:
            out = {"i": item["i"], "trace": run_one(item["sc"], wall)}
        except Exception as e:  # noqa: BLE001
            import traceback
            out = {"i": item["i"], "harness_error": f"{type(e).__name__}: {e}", "tb": traceback.format_exc()[-3000:]}
        sys.stdout.write(json.dumps(out, default=repr) + "\n")
        sys.stdout.flush()


def _run_batch(items: list[tuple[int, dict]], wall: float, results: dict[int, dict]) -> None:
    """Same protocol as harness.sim.pool._run_batch, with this module as the worker."""
    pending = list(items)
    env = dict(os.environ)
    env["PYTHONPATH"] = f"{ROOT}:{env.get('KOPF_REPO', '/repo')}"
    env["PYTHONHASHSEED"] = "0"
    while pending:
        payload = "".join(json.dumps({"i": i, "sc": sc}) + "\n" for i, sc in pending)
        try:
            p = subprocess.run(["timeout", "-s", "KILL", str(int(wall * (len(pending) + 2) + 120)),
                                sys.executable, "-m", "harness.props.c10", "--worker", str(wall)], input=payload,
                               capture_output=True, text=True, cwd=str(ROOT), env=env)
        except Exception as e:  # noqa: BLE001
            for i, _ in pending:
                results[i] = {"i": i, "harness_error": f"worker failed to run: {e!r}"}
            return
        done = set()
        for line in p.stdout.splitlines():
            if line.startswith("{"):
                r = json.loads(line)
                results[r["i"]] = r
                done.add(r["i"])
        rest = [(i, sc) for i, sc in pending if i not in done]
        if not rest:
            return
        if p.returncode == 0 and len(rest) == len(pending):
            for i, _ in rest:
                results[i] = {"i": i, "harness_error": "worker produced no output", "tb": p.stderr[-2000:]}
            return
        i0, _sc0 = rest[0]
        tail = p.stderr[p.stderr.rfind(f"@@BEGIN {i0}"):][-6000:]
        results[i0] = {"i": i0, "stall": True, "returncode": p.returncode, "stderr": tail}
        pending = rest[1:]


def run_many(scenarios: list[dict], wall: float = 20.0, batch: int = 20) -> list[dict]:
    jobs = int(os.environ.get("VERIF_JOBS", "0")) or min(16, os.cpu_count() or 4)
    items = list(enumerate(scenarios))
    batch = max(1, min(batch, (len(items) + jobs - 1) // jobs))
    batches = [items[k:k + batch] for k in range(0, len(items), batch)]
    results: dict[int, dict] = {}
    with ThreadPoolExecutor(max_workers=jobs) as ex:
        list(ex.map(lambda b: _run_batch(b, wall, results), batches))
    return [results.get(i, {"i": i, "harness_error": "missing"}) for i in range(len(scenarios))]


# =================================================================================================
# generators
# =================================================================================================
T = 1.0 / TPS
INTERVALS = [0.5, 1.0, 2.0, 0.375, 3.0, 1.25]
IDLES = [0.25, 1.0, 1.5, 2.5, 0.5, 4.0]
DELAYS = [0.0, 0.25, 1.0, 3.0, T]
ERR_DELAYS = [T, 0.25, 0.5, 1.0, 2.0, 0.0]


def gen_timer(rng: Any, combo: int, tid: str, default_backoff: float) -> dict:
    has_i, has_s, has_idle, has_d = bool(combo & 1), bool(combo & 2), bool(combo & 4), bool(combo & 8)
    opts: dict[str, Any] = {}
    if has_i:
        opts["interval"] = rng.choice(INTERVALS)
    if has_s:
        opts["sharp"] = True
    elif rng.random() < 0.2:
        opts["sharp"] = False
    if has_idle:
        opts["idle"] = rng.choice(IDLES)
    if has_d:
        opts["initial_delay"] = rng.choice(DELAYS)
    if rng.random() < 0.5:
        opts["backoff"] = rng.choice([0.25, 0.5, 1.5, T, 0.0])     # 0: retried at once (not the default backoff)
    if rng.random() < 0.25:
        opts["retries"] = rng.choice([1, 2, 3])
    if rng.random() < 0.2:
        opts["errors"] = rng.choice(["ignored", "temporary", "permanent"])
    if rng.random() < 0.2:
        # handler timeout: below / at / above the idle time and the interval (idle >= timeout: AUDIT_B2 §D-11)
        ref = opts.get("idle") or opts.get("interval") or 1.0
        opts["timeout"] = rng.choice([ref / 2, ref, ref + T, ref * 2, 0.5, 4.0, 8.0])
    base = opts.get("interval") or opts.get("idle") or 1.0
    durs = [0.0, 0.0, base / 2, base - T, base, base + T, base * 1.5, base * 2, base * 2.5, T, base - 2 * T]
    durs = [d for d in durs if d >= 0 and abs(d * TPS - round(d * TPS)) < 1e-9]
    script: list[Any] = []
    k = 0
    for _ in range(rng.choice([2, 3, 4, 5, 6, 8])):
        r = rng.random()
        k += 1
        if r < 0.22:
            a: Any = "ok"
        elif r < 0.42:
            a = ["ok", {"n": k if rng.random() < 0.8 else 0}]
        elif r < 0.55:
            a = ["patch", {"status": {"p": k}} if rng.random() < 0.7 else {"metadata": {"annotations": {"c10/x": str(k)}}, "status": {"p": k}}, "ok"]
        elif r < 0.75:
            a = ["temp", rng.choice(ERR_DELAYS)]
            if rng.random() < 0.5:
                a = ["patch", {"status": {"e": k}}, a]
        elif r < 0.9:
            a = "arb"
            if rng.random() < 0.4:
                a = ["patch", {"status": {"e": k}}, a]
        else:
            a = "perm"
        d = rng.choice(durs)
        if d > 0:
            a = ["sleep", d, a]
        script.append(a)
    return {"kind": "timer", "id": tid, "opts": opts, "script": script,
            "default": rng.choice(["ok", "ok", ["ok", {"n": 0}], ["patch", {"status": {"p": 0}}, "ok"]])}


def gen_scenario(rng: Any, seed: int, combo: int) -> dict:
    default_backoff = rng.choice([0.5, 1.0, 2.0])
    timers = [gen_timer(rng, combo, "t1", default_backoff)]
    if rng.random() < 0.2:
        timers.append(gen_timer(rng, rng.randrange(16), "t2", default_backoff))
    handlers: list[dict] = list(timers)
    if rng.random() < 0.5:
        handlers.append({"kind": "update", "id": "u1", "opts": {}, "script": [], "default": "ok"})
        if rng.random() < 0.5:
            handlers.append({"kind": "create", "id": "c1", "opts": {}, "script": [], "default": "ok"})
    if rng.random() < 0.15:
        # a slow @kopf.on.event handler: the event reaches process_spawning_cause later than the memory is created
        handlers.append({"kind": "event", "id": "e1", "opts": {}, "script": [], "default": ["sleep", rng.choice([T, 0.5, 2.0]), "ok"]})
    idle_only = any(("idle" in t["opts"]) and ("interval" not in t["opts"]) for t in timers)
    names = ["a"] + (["b"] if rng.random() < 0.15 else [])
    sc: dict[str, Any] = {"seed": seed, "handlers": handlers, "settings": {"execution.default_backoff": default_backoff}}
    timeline: list[list] = []
    end = rng.choice([10.0, 14.0, 20.0])
    for nm in names:
        if rng.random() < 0.3:
            sc.setdefault("objects", []).append({"name": nm, "body": {"spec": {"x": 0}, "metadata": {"labels": {"on": "yes"}}}})
        else:
            timeline.append([rng.choice([0.5, 1.0, 1.0 + T, 2.25]), "create", nm, {"spec": {"x": 0}, "metadata": {"labels": {"on": "yes"}}}])
    n = 0
    for _ in range(rng.choice([0, 1, 2, 3, 5])):
        n += 1
        t = rng.randrange(int(2.5 * TPS), int(end * TPS)) / TPS
        timeline.append([t, "edit", rng.choice(names), {"spec": {"x": n}}])
    if True:    # since 6ccf081 an idle-only timer's stopper may be set (a stall there is counted and skipped)
        respawn = rng.random()
        if respawn < 0.25:
            # a label filter on the first timer; toggle it off and on again: the task is stopped and respawned
            timers[0]["opts"]["labels"] = {"on": "yes"}
            t_off = rng.randrange(int(3 * TPS), int((end - 4) * TPS)) / TPS
            timeline.append([t_off, "edit", "a", {"metadata": {"labels": {"on": "no"}}}])
            timeline.append([t_off + rng.choice([T, 0.5, 2.0]), "edit", "a", {"metadata": {"labels": {"on": "yes"}}}])
        elif respawn < 0.4:
            t_stop = rng.randrange(int(3 * TPS), int((end - 4) * TPS)) / TPS
            timeline.append([t_stop, rng.choice(["stop", "kill"])])
            timeline.append([t_stop + rng.choice([0.5, 2.0]), "start"])
        elif respawn < 0.5:
            timeline.append([rng.randrange(int(4 * TPS), int(end * TPS)) / TPS, "delete", "a"])
    if rng.random() < 0.25:
        sc["status_subresource"] = True
    if rng.random() < 0.12:
        # API errors on the PATCH that delivers a timer's result: 1-2 are retried by the client within the request
        # (settings.networking.error_backoffs = 1, 1, 2 s in the harness: the patch takes seconds), 4+ exhaust it
        ns = [a[1]["n"] for t in timers for a in (x[2] if isinstance(x, list) and x[0] == "sleep" else x for x in t["script"])
              if isinstance(a, list) and a[0] == "ok" and len(a) > 1 and a[1].get("n")]
        if ns and rng.random() < 0.5:
            sc["faults"] = [{"match": {"method": "PATCH", "payload_contains": f"'n': {rng.choice(ns)}" + "}"},
                             "fault": ["status", rng.choice([500, 503])], "times": rng.choice([1, 1, 2, 3, 4, 9])}]
        elif ns:
            # an outage: every PATCH that carries a result of the first timer fails from some instant on, N times — errors the
            # client retries (5xx, 403, connection lost before / after the server applied it) and one raised at once (422);
            # the undelivered patch is carried from run to run and grows (b8b3089)
            timers[0]["default"] = ["ok", {"n": 0}]      # results (hence PATCHes) after the script's end too
            timers[0]["opts"].setdefault("interval", rng.choice(INTERVALS))     # … and runs to deliver them
            sc["faults"] = [{"match": {"method": "PATCH", "payload_contains": "'t1': {", "after": rng.randrange(int(1.5 * TPS), int(4 * TPS)) / TPS},
                             "fault": rng.choice([["status", 500], ["status", 503], ["conn-before"], ["conn-after"], ["status", 403], ["status", 422]]),
                             "times": rng.choice([1, 2, 4, 5, 8, 13, 40])}]
    sc["timeline"] = sorted(timeline, key=lambda e: e[0])
    sc["end"] = end
    return sc


# Units of time. The property is invariant under a change of the unit: a timer declared in minutes, hours, days or weeks
# obeys the same laws as one declared in seconds. The generator therefore re-states a generated scenario in another unit:
# EVERY duration of the scenario (interval, idle, initial_delay, backoff, timeout, handler durations, error delays, the
# instants of the timeline, the end, the start of an outage, the default backoff, the watch timeouts incl. the inactivity
# timeout of 70 s after which kopf re-connects a silent watch and the 60 s at which it re-checks a stopped timer whose function
# is still running: unscaled, a year of them is half a million re-connections / processing cycles) is multiplied by an
# integer, so all instants stay dyadic and the history is the same history on a coarser clock; only the latency of the fake
# API server (1/64 s per request) and the client's retry backoffs stay what they are. Sleeps of seconds .. months are
# requested from the real aiotime.sleep / asyncio loop that way (the virtual clock jumps; nothing is stubbed), so anything
# on the way that depends on the MAGNITUDE of a delay (a cap, a clamp, a unit conversion, an overflow, a "long enough"
# short-cut) shows in the start instants the oracle judges. The unit grid covers every decade from a second to a year.
UNITS = [1, 7, 60, 600, 3600, 6 * 3600, 86400, 2 * 86400, 7 * 86400, 30 * 86400, 365 * 86400]
SCALED_OPTS = ("interval", "idle", "initial_delay", "backoff", "timeout")


def _scale_action(a: Any, k: int) -> Any:
    if isinstance(a, list) and a and a[0] == "sleep":
        return ["sleep", a[1] * k, _scale_action(a[2], k)]
    if isinstance(a, list) and a and a[0] == "temp":
        return ["temp", a[1] * k] + a[2:]
    if isinstance(a, list) and a and a[0] == "patch":
        return ["patch", a[1], _scale_action(a[2], k)]
    return a


def scale_scenario(sc: dict, k: int) -> dict:
    """The same scenario with the unit of time multiplied by the integer k (k = 1: the scenario itself)."""
    if k == 1:
        return sc
    v = copy.deepcopy(sc)
    v["unit"] = k
    for h in v["handlers"]:
        for o in SCALED_OPTS:
            if h["opts"].get(o) is not None:
                h["opts"][o] = h["opts"][o] * k
        h["script"] = [_scale_action(a, k) for a in h.get("script", [])]
        h["default"] = _scale_action(h.get("default", "ok"), k)
    st = v.setdefault("settings", {})
    for key, dflt in (("execution.default_backoff", 60.0), ("watching.server_timeout", 512.0), ("watching.client_timeout", 1024.0),
                      ("watching.inactivity_timeout", 70.0), ("background.cancellation_polling", 60.0)):
        st[key] = st.get(key, dflt) * k
    v["timeline"] = [[e[0] * k] + e[1:] for e in v["timeline"]]
    v["end"] = v["end"] * k
    for f in v.get("faults", []):
        if "after" in f.get("match", {}):
            f["match"]["after"] = f["match"]["after"] * k
    return v


def gen_unit(rng: Any) -> int:
    return 1 if rng.random() < 0.6 else rng.choice(UNITS[1:])


def boundary_variants(rng: Any, sc: dict, tr: dict, seed: int, how_many: int) -> list[dict]:
    """Second pass: one extra edit exactly at an observed start, at start - idle, and 1 tick either side."""
    opts = {h["id"]: h["opts"] for h in sc["handlers"] if h["kind"] == "timer"}
    targets: list[tuple[float, str]] = []
    uid_name = {}
    for c in tr["cycles"]:
        uid_name.setdefault(c["uid"], None)
    for inst in tr["c10"]["instances"]:
        idle = opts.get(inst["id"], {}).get("idle")
        for it in inst["iters"][1:] if len(inst["iters"]) > 1 else inst["iters"]:
            targets.append((it["t0"], "start"))
            if idle:
                targets.append((it["t0"] - idle, "start-idle"))
    targets = [(t, w) for t, w in targets if t > 2.5]
    out = []
    for _ in range(how_many):
        if not targets:
            break
        t, what = rng.choice(targets)
        delta = rng.choice([-T, 0.0, 0.0, T])
        v = copy.deepcopy(sc)
        v["seed"] = seed + len(out) + 1
        v["timeline"] = sorted(v["timeline"] + [[t + delta, "edit", "a", {"spec": {"y": round((t + delta) * TPS)}}]], key=lambda e: e[0])
        v["boundary"] = {"target": what, "delta_ticks": round(delta * TPS)}
        out.append(v)
    return out


# =================================================================================================
# the oracle — from the property statement, over implementation-level observations
# =================================================================================================
def _timer_cfgs(sc: dict) -> dict[str, dict]:
    dflt = (sc.get("settings") or {}).get("execution.default_backoff", 60.0)
    out = {}
    for h in sc["handlers"]:
        if h["kind"] == "timer":
            o = h["opts"]
            out[h["id"]] = {"interval": o.get("interval"), "sharp": bool(o.get("sharp")), "idle": o.get("idle"),
                            "initial_delay": o.get("initial_delay"), "backoff": o.get("backoff", dflt),
                            "errors": o.get("errors", "temporary"), "retries": o.get("retries"), "timeout": o.get("timeout")}
    return out


def _kind_of(call: dict, cfg: dict) -> tuple[str, float | None]:
    """success | retry(delay) | final-failure, as the documentation classifies the run."""
    o = call.get("outcome")
    exhausted = cfg["retries"] is not None and (call.get("retry") or 0) + 1 >= cfg["retries"]
    if o == "ok":
        return "success", None
    if o == "perm":
        return "final", None
    if o == "temp":
        if exhausted:
            return "final", None
        d = call.get("delay")
        return "retry", 60.0 if d is None else float(d)
    if o == "arb":
        if cfg["errors"] == "ignored":
            return "success", None
        if cfg["errors"] == "permanent" or exhausted:
            return "final", None
        return "retry", float(cfg["backoff"])
    return "unknown", None


def oracle(ctx: Ctx, sc: dict, tr: dict, stats: dict | None = None) -> None:
    cfgs = _timer_cfgs(sc)
    insts = tr["c10"]["instances"]
    by_key: dict[tuple, list[dict]] = {}
    for c in tr["calls"]:
        by_key.setdefault((c["uid"], c["id"]), []).append(c)
    cyc_by_uid: dict[str, list[dict]] = {}
    for c in tr["cycles"]:
        cyc_by_uid.setdefault(c["uid"], []).append(c)

    def fail(clause: str, what: str, **info: Any) -> None:
        ctx.oracle_fail(what, {"scenario": sc, **info}, {"site": "daemons._timer", "clause": clause})

    faulty = bool(sc.get("faults"))
    end_t = float(sc.get("end", 60.0))
    name_of = {c["uid"]: c.get("name") for c in tr["cycles"]}
    all_patches = tr.get("patches")

    # O9 — a timer task never ends by an exception (the handler's own errors are outcomes, not exceptions of the task)
    for i in insts:
        how = str(i.get("how") or "")
        if not how.startswith("error") or i["id"] not in cfgs:
            continue
        last = i["iters"][-1] if i["iters"] else None
        in_patch = last is not None and last.get("p0") is not None and (last.get("p1") is None or last.get("perr") == how[6:])
        what = (f"timer {i['id']}: the task ended at {i['exit']} with {how[6:]}"
                + (" raised by the post-run patch of the run started at " + str(last["t0"]) if in_patch else "")
                + (": no run will ever follow in this operator process" if i.get("stop_reason") in (None, "None") else ""))
        if in_patch and how[6:] in INFRA_ERRORS:
            ctx.oracle_fail(what, {"scenario": sc, "uid": i["uid"], "id": i["id"], "exit": i["exit"]}, F4_SIG)
        else:
            fail("crashed", what, uid=i["uid"], id=i["id"], exit=i["exit"])

    for (uid, hid), calls in by_key.items():
        cfg = cfgs.get(hid)
        if cfg is None:
            continue
        calls.sort(key=lambda c: (c["t"], c["n"]))
        cycles = cyc_by_uid.get(uid, [])
        # essential changes, as the operator saw them (time of the processing cycle)
        changes: list[dict] = []
        prev = prev_inc = None
        for c in cycles:
            first = prev is None or (prev_inc is not None and c["inc"] != prev_inc)
            if (first and c.get("lh_same") is not True) or (not first and c["ess"] != prev):
                changes.append(c)
            prev, prev_inc = c["ess"], c["inc"]
        my = sorted([i for i in insts if i["uid"] == uid and i["id"] == hid], key=lambda i: i["spawn"])

        def inst_of(c: dict) -> dict | None:
            cand = [i for i in my if i["spawn"] <= c["t"] and i["inc"] == c["inc"]]
            return cand[-1] if cand else None

        def patched_of(c: dict) -> float | None:
            i = inst_of(c)
            for it in (i["iters"] if i else []):
                if it["t0"] == c["t"] and it.get("attempt") == c.get("retry") and it.get("p1") is not None:
                    return it["p1"]
            return None

        def recorded_final(c: dict) -> bool:
            i = inst_of(c)
            for it in (i["iters"] if i else []):
                if it["t0"] == c["t"] and it.get("attempt") == c.get("retry") and it.get("outcome"):
                    return bool(it["outcome"]["final"] and it["outcome"]["exc"])
            return False

        def reset_time(c: dict) -> float | None:
            """when the cycle of this event reached process_spawning_cause (probe), None if it never did"""
            ts = [e["t"] for e in tr["c10"].get("detects", []) if e.get("cyc") == c["i"] and e.get("reset")]
            return min(ts) if ts else None

        def last_cycle_upto(t: float) -> float | None:
            # the END of the latest processing cycle begun by then bounds every reset stamped so far
            ts = [(c["t1"] if c.get("t1") is not None else c["t0"]) for c in cycles if c["t0"] <= t]
            return max(ts) if ts else None

        change_ids = {c["i"] for c in changes}

        def cyc_end(c: dict) -> float:
            return c["t1"] if c.get("t1") is not None else float("inf")     # an unfinished cycle may still stamp

        def excuse(t: float) -> str | None:
            """Why a run at `t` may be later than its schedule: "idle" — it is within (not beyond) the idle time after an
            ESSENTIAL change the operator had seen by then (the reset is stamped between the start and the end of that
            change's processing cycle); "f3" — only an event that is NOT an essential change, on an object that differs
            from what is stored as last handled (or with nothing stored), explains it: kopf reset idling there too before
            14876bf (fixed finding C10-F3, kept as a signature of its own); None — nothing the property allows."""
            if cfg["idle"] is None:
                return None
            if any(c["t0"] <= t <= cyc_end(c) + cfg["idle"] for c in changes):
                return "idle"
            if any(c["i"] not in change_ids and c.get("lh_same") is not True and c["t0"] <= t <= cyc_end(c) + cfg["idle"] for c in cycles):
                return "f3"
            return None

        def iter_of(c: dict) -> dict | None:
            i_ = inst_of(c)
            for it in (i_["iters"] if i_ else []):
                if it["t0"] == c["t"] and it.get("attempt") == c.get("retry"):
                    return it
            return None

        def f3(what: str, **info: Any) -> None:
            ctx.oracle_fail(what + " — postponed/triggered only by an event that is not an essential change of the object",
                            {"scenario": sc, "uid": uid, "id": hid, **info}, F3_SIG)

        # O8 — the post-run patch takes no longer than its API requests (1/64 s each in the fake cluster, no faults injected):
        # "one interval after the previous run ended" leaves room for the delivery of the result, not for anything else
        if not faulty and all_patches is not None:
            mine_p = [r for r in all_patches if r.get("t") is not None and
                      (name_of.get(uid) is None or str(r.get("path", "")).rstrip("/").split("/")[-1] in (name_of[uid], "status"))]
            for c in calls:
                it = iter_of(c)
                if it is None or it.get("p0") is None or it.get("p1") is None:
                    continue
                n_req = sum(1 for r in mine_p if it["p0"] <= r["t"] <= it["p1"])
                if it["p1"] - it["p0"] > n_req * T + 1e-9:
                    fail("patch-duration", f"timer {hid}: the post-run patch of the run ended at {c.get('t_end')} took {it['p1'] - it['p0']} s "
                         f"for {n_req} API request(s) of 1/64 s: the schedule of the next run is shifted by a wait the property does not allow",
                         uid=uid, id=hid, call=c)
                    break

        failed_for_good: dict[Any, dict] = {}
        one_shot_done: dict[Any, dict] = {}
        for k, b in enumerate(calls):
            # O5 — the first run of every spawn is not earlier than the initial delay
            i = inst_of(b)
            first_of_inst = i is not None and (k == 0 or inst_of(calls[k - 1]) is not i)
            if first_of_inst and cfg["initial_delay"] is not None and b["t"] < i["spawn"] + cfg["initial_delay"]:
                fail("initial-delay", f"timer {hid}: first run at {b['t']} earlier than spawn {i['spawn']} + initial_delay {cfg['initial_delay']}",
                     uid=uid, id=hid, call=b)
            # O6 — no run within the idle time after the last essential change
            if cfg["idle"] is not None:
                seen = [c for c in changes if c["t0"] < b["t"]]
                if seen and b["t"] < seen[-1]["t0"] + cfg["idle"]:
                    what = (f"timer {hid}: run at {b['t']} within idle={cfg['idle']} after the essential change seen at {seen[-1]['t0']}")
                    rt_ = reset_time(seen[-1])
                    if rt_ is None or (rt_ >= b["t"] and (seen[-1].get("t1") is None or b["t"] <= seen[-1]["t1"])):
                        # (rt_ None: the cycle was cancelled inside its on.event handlers — operator stopping — and never stamped)
                        # the change was received, but nothing had stamped idle_reset_time for it yet (the shape of the fixed finding C10-F2)
                        ctx.oracle_fail(what + f" (its processing cycle reset idling only at {rt_})",
                                        {"scenario": sc, "uid": uid, "id": hid, "call": b, "change": seen[-1]["t0"]}, F2_SIG)
                    elif seen[-1].get("lh_same"):
                        # the change restored the essence recorded as last handled: kopf diffs against that, sees nothing
                        ctx.oracle_fail(what + " (the change restored the last-handled essence)",
                                        {"scenario": sc, "uid": uid, "id": hid, "call": b, "change": seen[-1]["t0"]}, F1_SIG)
                    else:
                        fail("idle", what, uid=uid, id=hid, call=b, change=seen[-1]["t0"])
            if k == 0:
                continue
            a = calls[k - 1]
            # O1 — never overlaps with itself
            if a.get("t_end") is None and a["inc"] != b["inc"]:
                continue        # the previous run died with its killed operator process
            if a.get("t_end") is None or b["t"] < a["t_end"]:
                fail("overlap", f"timer {hid}: run started at {b['t']} while the previous one (started {a['t']}) ended at {a.get('t_end')}",
                     uid=uid, id=hid, prev=a, call=b)
                continue
            kind, d = _kind_of(a, cfg)
            if kind == "retry" and cfg["timeout"] is not None and recorded_final(a):
                kind = "final"      # `runtime + delay >= timeout`: recorded as failed for good (the look-ahead of C11)
            if kind == "final":
                failed_for_good[a["inc"]] = a
            if b["inc"] in failed_for_good:
                # docs/timers.rst: "the timer stops forever and is not retried" — in this operator process, also after
                # a re-spawn (filter mismatch and re-match, pause/resume): memory.forever_stopped
                f0 = failed_for_good[b["inc"]]
                fail("permanent", f"timer {hid}: run at {b['t']} (retry={b.get('retry')}) after the run at {f0['t']} had failed for good ({f0.get('outcome')})",
                     uid=uid, id=hid, prev=f0, call=b)
                continue
            ia = inst_of(a)
            if kind == "success" and cfg["interval"] is None and cfg["idle"] is None and ia is not None \
                    and ia.get("how") == "returned" and ia.get("stop_reason") in (None, "None"):
                one_shot_done[a["inc"]] = a     # neither interval nor idle: the task ended on its own after this run
            if b["inc"] in one_shot_done:
                f0 = one_shot_done[b["inc"]]
                fail("one-shot", f"timer {hid} has neither interval nor idle: run at {b['t']} after the one-shot run at {f0['t']} had succeeded",
                     uid=uid, id=hid, prev=f0, call=b)
                continue
            if ia is not i or i is None:
                continue        # a respawn in between: the gap belongs to the initial delay
            pat = patched_of(a)
            rt = None if pat is None else pat - a["t_end"]
            if stats is not None and rt is not None:
                stats["rt"][round(rt * TPS)] = stats["rt"].get(round(rt * TPS), 0) + 1

            def late(ub: float) -> str | None:
                """None: on time or postponed by idling as the property allows; "f3" / "late" otherwise"""
                if b["t"] <= ub:
                    return None
                ex = excuse(b["t"])
                return None if ex == "idle" else "f3" if ex == "f3" else "late"

            if kind == "retry":
                assert d is not None
                if b["t"] < a["t_end"] + d:
                    fail("error-delay", f"timer {hid}: retry at {b['t']} earlier than the failed run's end {a['t_end']} + delay {d}",
                         uid=uid, id=hid, prev=a, call=b)
                elif pat is not None and late(max(a["t_end"] + d, pat)):
                    what = f"timer {hid}: retry at {b['t']} later than end {a['t_end']} + delay {d} (patch ended {pat}) with no idling"
                    if late(max(a["t_end"] + d, pat)) == "f3":
                        f3(what, prev=a, call=b)
                    else:
                        fail("error-delay-late", what, uid=uid, id=hid, prev=a, call=b)
            elif kind == "success" and cfg["interval"] is not None and not cfg["sharp"]:
                iv = cfg["interval"]
                if b["t"] < a["t_end"] + iv:
                    fail("interval", f"timer {hid}: next run at {b['t']} earlier than the previous end {a['t_end']} + interval {iv}",
                         uid=uid, id=hid, prev=a, call=b)
                elif pat is not None and late(pat + iv):
                    what = f"timer {hid}: next run at {b['t']} later than end {a['t_end']} + interval {iv} + patch round trip {rt} with no idling"
                    if late(pat + iv) == "f3":
                        f3(what, prev=a, call=b)
                    else:
                        fail("interval-late", what, uid=uid, id=hid, prev=a, call=b)
                elif stats is not None and pat is not None and b["t"] <= pat + iv:
                    s = round((b["t"] - a["t_end"] - iv) * TPS)
                    stats["slack"][s] = stats["slack"].get(s, 0) + 1
            elif kind == "success" and cfg["interval"] is not None and cfg["sharp"]:
                iv = cfg["interval"]
                steps = (b["t"] - a["t"]) / iv
                on_grid = abs(steps - round(steps)) < 1e-9 and round(steps) >= 1
                if pat is None:
                    continue
                import math
                kk = max(1, math.ceil((pat - a["t"]) / iv - 1e-12))
                g = a["t"] + kk * iv                  # first grid point not earlier than the end of the patch
                g2 = g + iv if g == pat else g        # … or strictly after it, when the patch ends exactly on the grid
                if b["t"] in (g, g2) and on_grid:
                    if stats is not None:
                        stats["sharp_k"][round(steps)] = stats["sharp_k"].get(round(steps), 0) + 1
                        if g == pat:
                            stats["sharp_exact"] = stats.get("sharp_exact", 0) + 1
                elif b["t"] < g:
                    fail("sharp-early", f"timer {hid}: sharp run at {b['t']} before the grid point {g} (start {a['t']} + {kk}*{iv}) that follows the previous run's patch end {pat}",
                         uid=uid, id=hid, prev=a, call=b)
                elif excuse(b["t"]) == "idle":
                    pass    # postponed by idling: may leave the grid
                else:
                    what = f"timer {hid}: sharp run at {b['t']} is not the grid point {g} (start {a['t']} + k*{iv}) following the previous run's patch end {pat}"
                    if excuse(b["t"]) == "f3":
                        f3(what, prev=a, call=b)
                    else:
                        fail("sharp-grid", what, uid=uid, id=hid, prev=a, call=b)
            elif kind == "success" and cfg["interval"] is None and cfg["idle"] is not None:
                # idle-only: needs a change since the previous run, and the idle time after it
                def since(c: dict) -> bool:
                    return a["t"] <= (c["t1"] if c.get("t1") is not None else c["t0"]) and c["t0"] + cfg["idle"] <= b["t"]
                if not any(since(c) for c in changes):
                    what = f"timer {hid}: idle-only run at {b['t']} with no essential change of the object processed in [{a['t']}, {b['t']} - idle]"
                    if any(since(c) and c.get("lh_same") is not True for c in cycles):
                        f3(what, prev=a, call=b)
                    else:
                        fail("idle-only", what, uid=uid, id=hid, prev=a, call=b)

        # O10 — the schedule goes on: after the last observed run of a timer task that nobody asked to stop, the next run
        # is due (one interval after a success / on the grid / after the error's delay / idle after the changes) —
        # if the scenario lasted beyond that instant and no run started, the schedule has silently ended
        stops = [e[0] for e in sc.get("timeline", []) if len(e) > 1 and e[1] in ("stop", "kill")]
        for i in my:
            mine = [c for c in calls if inst_of(c) is i]
            if not mine or str(i.get("how") or "").startswith("error"):
                continue
            if not (i["exit"] is None or i["exit"] >= end_t) or any(t >= i["spawn"] for t in stops):
                continue        # the task was (or may have been) asked to stop
            a = mine[-1]
            if a.get("t_end") is None or a is not calls[-1]:
                continue
            kind, d = _kind_of(a, cfg)
            if kind == "retry" and cfg["timeout"] is not None:
                continue        # the strict pre-check may end the series instead of a call (C11)
            pat = patched_of(a)
            if pat is None or any(c.get("t1") is None for c in cycles):
                continue
            lastc = last_cycle_upto(end_t)
            if kind == "retry":
                assert d is not None
                due = max(a["t_end"] + d, pat)
            elif kind == "success" and cfg["interval"] is not None and not cfg["sharp"]:
                due = pat + cfg["interval"]
            elif kind == "success" and cfg["interval"] is not None:
                import math
                kk = max(1, math.ceil((pat - a["t"]) / cfg["interval"] - 1e-12))
                due = a["t"] + kk * cfg["interval"]
                due = due + cfg["interval"] if due == pat else due
            elif kind == "success" and cfg["idle"] is not None:
                if not any(c["t0"] > pat for c in changes):
                    continue    # idle-only: nothing has changed since the run
                due = pat       # the poll notices the change within `idle`; covered by the idle allowance below
            else:
                continue        # failed for good / one-shot: nothing follows
            if cfg["idle"] is not None and lastc is not None:
                due = max(due, lastc + cfg["idle"]) + (cfg["idle"] if cfg["interval"] is None and kind == "success" else 0.0)
            if due + T < end_t:
                fail("next-run-missing", f"timer {hid}: no run after the one ended at {a['t_end']} ({kind}) although the next one was due at {due} "
                     f"and the task was not asked to stop before {end_t}", uid=uid, id=hid, prev=a, due=due)


# =================================================================================================
# (S) abstraction of a trace into model requests
# =================================================================================================
def _cfg_json(cfg: dict) -> dict:
    return {"interval": ticks(cfg["interval"]), "sharp": cfg["sharp"], "idle": ticks(cfg["idle"]),
            "initial_delay": ticks(cfg["initial_delay"]), "backoff": ticks(cfg["backoff"]), "errors": cfg["errors"],
            "retries": cfg["retries"], "timeout": ticks(cfg["timeout"])}


def _res_json(call: dict) -> list:
    o = call["outcome"]
    if o == "ok":
        return ["ok"]
    if o == "temp":
        d = call.get("delay")
        return ["temporary", ticks(60.0 if d is None else float(d))]
    if o == "arb":
        return ["arbitrary"]
    if o == "perm":
        return ["permanent"]
    raise ValueError(f"unknown scripted outcome {o!r}")


def _obs(inst: dict, lo: float, hi: float) -> list | None:
    seen: dict[int, int] = {}
    for t, v in inst["reads"]:
        if t < lo or t > hi:
            continue
        tt, vv = ticks(t), ticks(v)
        if tt in seen and seen[tt] != vv:
            return None
        seen[tt] = vv
    return sorted([t, v] for t, v in seen.items())


def _state_json(st: dict) -> dict:
    return {"started": ticks(st["started"]), "retries": st["retries"], "success": st["success"], "failure": st["failure"],
            "delayed": ticks(st["delayed"])}


def abstract(sc: dict, tr: dict) -> list[dict]:
    """One item per timer task (spawn → first iteration) and per completed loop iteration:
    {"req": driver request, "impl": observed, "what": .., "shape": ..}"""
    cfgs = _timer_cfgs(sc)
    end = float(sc.get("end", 60.0))
    calls: dict[tuple, dict] = {}
    for c in tr["calls"]:
        calls[(c["uid"], c["id"], c["t"], c.get("retry"))] = c
    items = []
    for inst in tr["c10"]["instances"]:
        cfg = cfgs.get(inst["id"])
        if cfg is None:
            continue
        cj = _cfg_json(cfg)
        last = inst["iters"][-1] if inst["iters"] else None
        patch_raised = str(inst.get("how") or "")[6:] in INFRA_ERRORS and str(inst.get("how") or "").startswith("error:") \
            and last is not None and last.get("p0") is not None and (last.get("p1") is None or last.get("perr") == str(inst.get("how"))[6:])
        # a task that ENDS by an API error of its post-run patch (the code before b8b3089; fixed finding C10-F4): the ORACLE
        # reports it; for the model (`onPatchError`) it is a tie failure of the `carry` item below. Any other exception too.
        if patch_raised:
            items.append({"what": "carry", "obs_ok": True, "req": ["C10.carry", True, [], []], "impl": {"carried": [], "goes_on": False},
                          "inst": {"uid": inst["uid"], "id": inst["id"], "spawn": inst["spawn"], "exit": inst["exit"]},
                          "shape": {"gap": "carry", "raised": True, "ended-the-task": True}})
        if (str(inst.get("how") or "").startswith("error") and not patch_raised) or inst.get("spin"):
            items.append({"what": "crashed", "inst": {"uid": inst["uid"], "id": inst["id"], "how": inst.get("how"), "spin": inst.get("spin", False),
                                                      "exit": inst["exit"]}})
        if inst["exit"] is not None and inst.get("how") in ("returned", "cancelled") or patch_raised:
            # how the task ended → may the timer be spawned again in this operator process (`_runner`'s finally)
            reason = inst.get("stop_reason") not in (None, "None")
            # (a reason set by anybody — also while the failing patch was being retried — makes it `stopped`)
            how_ = "stopped" if reason or inst.get("how") == "cancelled" else "raised" if patch_raised else "returned"
            failed = any((it.get("outcome") or {}).get("final") and (it.get("outcome") or {}).get("exc") for it in inst["iters"])
            later = [j for j in tr["c10"]["instances"] if j is not inst and j["uid"] == inst["uid"] and j["id"] == inst["id"]
                     and j["inc"] == inst["inc"] and j["spawn"] >= inst["exit"]]
            items.append({"what": "exit", "obs_ok": True, "req": ["C10.exit", how_, bool(failed)], "impl": {"respawned": bool(later)},
                          "inst": {"uid": inst["uid"], "id": inst["id"], "spawn": inst["spawn"], "exit": inst["exit"]},
                          "shape": {"gap": "exit", "how": how_, "failed": bool(failed), "respawned": bool(later)}})
        alive_until = inst["exit"] if inst["exit"] is not None else end
        iters = inst["iters"]
        presence = (cfg["interval"] is not None, cfg["sharp"], cfg["idle"] is not None, cfg["initial_delay"] is not None)
        who = {"uid": inst["uid"], "id": inst["id"], "spawn": inst["spawn"]}
        # spawn → first iteration
        hi = iters[0]["t0"] if iters else alive_until
        obs = _obs(inst, inst["spawn"], hi)
        items.append({"what": "first", "obs_ok": obs is not None,
                      "req": ["C10.first", cj, ticks(inst["spawn"]), obs or [], FUEL],
                      "impl": {"start": ticks(iters[0]["t0"]) if iters else None,
                               "top": _state_json(iters[0]["state"]) if iters else None},
                      "alive_until": ticks(alive_until), "shape": {"gap": "first", "presence": presence}, "inst": who})
        failed_before = False
        for k, it in enumerate(iters):
            if it["t1"] is None or it["p1"] is None:
                continue    # still going on when the scenario ended / the operator was killed
            o = it.get("outcome")
            call = calls.get((inst["uid"], inst["id"], it["t0"], it["attempt"])) if o is not None else None
            expired = o is not None and call is None and o["final"] and o["exc"] in ("HandlerTimeoutError", "HandlerRetriesError")
            invoked = o is not None and not expired
            res = None
            if invoked:
                if call is None or call.get("t_end") is None:
                    items.append({"what": "unmatched", "inst": who, "iter": it})
                    continue
                if ticks(call["t_end"]) != ticks(it["t1"]):
                    items.append({"what": "clock-mismatch", "inst": who, "iter": it, "call": call})
                    continue
                res = _res_json(call)
            # the entry state is observed after the reset at the loop top, so the model's `top` is not read for it
            itj = {"top": ticks(it["t0"]), "start": ticks(it["t0"]), "ended": ticks(it["t1"]), "patched": ticks(it["p1"]), "res": res}
            nxt = iters[k + 1] if k + 1 < len(iters) else None
            hi = nxt["t0"] if nxt else alive_until
            obs = _obs(inst, it["p1"], hi)
            impl: dict[str, Any] = {"invokes": invoked, "expires": expired, "attempt": it["attempt"],
                                    "next_start": ticks(nxt["t0"]) if nxt else None,
                                    "next_top": _state_json(nxt["state"]) if nxt else None}
            if o is not None:    # the state the real `with_outcomes` must have produced, from the observed outcome
                impl["post"] = {"started": ticks(it["state"]["started"]),
                                "success": bool(o["final"] and not o["exc"]), "failure": bool(o["final"] and o["exc"]),
                                "delayed": None if o["final"] or o["delay"] is None else ticks(it["t1"]) + ticks(o["delay"]),
                                "retries": it["attempt"] + 1}
            iv = cfg["interval"] or cfg["idle"] or 1.0
            dur = it["t1"] - it["t0"]
            durc = "0" if dur == 0 else "<" if dur < iv - T else "=-1" if dur == iv - T else "=" if dur == iv else "=+1" if dur == iv + T else ">"
            shape = {"gap": "iter", "presence": presence, "timeout": cfg["timeout"] is not None,
                     "res": res[0] if res else ("expired:" + o["exc"]) if expired else "nothing-awakened", "dur": durc,
                     "rt": itj["patched"] - itj["ended"], "final": bool(o["final"]) if o else None, "last": nxt is None,
                     "state": (it["state"]["retries"] > 0, it["state"]["failure"], it["state"]["delayed"] is not None)}
            items.append({"what": "iter", "obs_ok": obs is not None,
                          "req": ["C10.iter", cj, _state_json(it["state"]), itj, obs or [], FUEL], "impl": impl,
                          "alive_until": ticks(alive_until), "how": inst["how"], "exit": ticks(inst["exit"]) if inst["exit"] is not None else None,
                          "shape": shape, "failed_before": failed_before, "inst": {**who, "k": k}})
            if o and o["final"] and o["exc"]:
                failed_before = True
            if nxt is not None and "handed" in it and "carried" in nxt:
                # what the next iteration's `cause.patch` starts with: everything after a failed delivery, else what was handed back
                tbl: dict[str, int] = {}
                handed = sorted(_intern(tbl, x) for x in it["handed"])
                back = sorted(_intern(tbl, x) for x in it.get("handed_back", []))
                carried = sorted(_intern(tbl, x) for x in nxt["carried"])
                raised = it.get("perr") is not None
                items.append({"what": "carry", "obs_ok": True, "req": ["C10.carry", raised, handed, back],
                              "impl": {"carried": carried, "goes_on": True}, "inst": {**who, "k": k, "perr": it.get("perr")},
                              "shape": {"gap": "carry", "raised": raised, "handed": min(len(handed), 3), "back": min(len(back), 2),
                                        "fns": min(int(it.get("handed_fns") or 0), 2)}})
    return items


def _intern(table: dict[str, int], x: Any) -> int:
    return table.setdefault(leanio.canon(x), len(table))


def abstract_resets(sc: dict, tr: dict) -> list[dict]:
    """(a) One item per event that reached `process_spawning_cause` (observed there: loop time, the essence of the body,
    the last-handled essence it carries, the real `cause.reset`): the model's reset decision given the previously
    processed essence of the same memory. (b) One item per timer task: every value of idle_reset_time it read, against
    the value derived by the model from that history (reads at an instant in which an event of the object is processed
    are left out: their order within the instant is not observable)."""
    created: dict[int, float] = {}
    for w in tr["c10"]["writes"]:
        created.setdefault(w["mem"], w["v"])
    table: dict[str, int] = {}
    history: dict[int, list[list]] = {}
    items = []
    psc_at = {e.get("cyc"): e["t"] for e in tr["c10"]["events"] if "error" not in e and e.get("cyc") is not None}
    for ev in tr["c10"]["events"]:
        if "error" in ev:
            items.append({"what": "crashed", "inst": ev})
    for ev in tr["c10"].get("detects", []):
        if "error" in ev:
            items.append({"what": "crashed", "inst": ev})
            continue
        e = _intern(table, ev["ess_norm"])
        lh = None if ev["lh_norm"] is None else _intern(table, ev["lh_norm"])
        hist = history.setdefault(ev["mem"], [])
        seen = hist[-1][2] if hist else None
        # [recv, t, ess, lh]: the stamp after the detection and the one in process_spawning_cause (same instant if the
        # cycle never got there)
        hist.append([ticks(ev["t"]), ticks(psc_at.get(ev.get("cyc"), ev["t"])), e, lh])
        items.append({"what": "reset", "req": ["C10.reset", lh, seen, e], "impl": ev["reset"],
                      "inst": {"uid": ev["uid"], "t": ev["t"]}, "obs_ok": True,
                      "shape": {"gap": "reset", "lh": "none" if lh is None else "same" if lh == e else "differs",
                                "seen": "first" if seen is None else "same" if seen == e else "differs",
                                "late": psc_at.get(ev.get("cyc"), ev["t"]) > ev["t"]}})
    for inst in tr["c10"]["instances"]:
        evs = history.get(inst["mem"], [])
        if inst["mem"] not in created:
            continue
        busy = {e[0] for e in evs} | {e[1] for e in evs}
        reads: dict[int, int] = {}
        tied = 0
        for t, v in inst["reads"]:
            tt = ticks(t)
            if tt in busy:
                tied += 1
                continue
            reads[tt] = ticks(v)
        ts = sorted(reads)
        items.append({"what": "view", "req": ["C10.view", ticks(created[inst["mem"]]), evs, ts], "impl": [reads[t] for t in ts],
                      "inst": {"uid": inst["uid"], "id": inst["id"], "spawn": inst["spawn"]}, "obs_ok": True, "tied": tied,
                      "n": len(ts), "shape": {"gap": "view", "events": min(len(evs), 6), "reads": min(len(ts), 6)}})
    return items


def compare(ctx: Ctx, sc: dict, item: dict, out: Any) -> None:
    wh = {"scenario": sc, "gap": item["inst"], "request": item["req"]}
    if not out or out[0] != "ok":
        ctx.tie_fail("driver rejected a request", {**wh, "answer": out})
        return
    m = out[1]
    if item["what"] == "reset":
        ctx.compare("C10 idle reset decision", item["impl"], m, wh)
        return
    if item["what"] == "view":
        ctx.compare("C10 idle_reset_time derived from the event history", item["impl"], m, wh)
        return
    if item["what"] == "carry":
        ctx.count("post-run-patch", ("raised" if item["shape"]["raised"] else "delivered") + ":" +
                  ("nothing" if not item["req"][2] else "content"))
        ctx.compare("C10 what the post-run patch leaves for the next iteration", item["impl"],
                    {"carried": sorted(m["carried"]), "goes_on": m["goes_on"]}, wh)
        return
    if item["what"] == "exit":
        # the model says whether the timer MAY come back; it did come back only if it may
        ctx.tie_comparisons += 1
        ctx.count("task-exit", f"{item['shape']['how']}{'+failed' if item['shape']['failed'] else ''}:{'respawned' if item['impl']['respawned'] else 'not-respawned'}")
        if item["impl"]["respawned"] and m is not True:
            ctx.tie_fail("C10: a timer task was spawned again although the model says the handler is stopped for ever",
                         {"input": wh, "impl": item["impl"], "model": {"respawnable": m}})
        return
    res = m["res"]
    impl = item["impl"]
    if item["what"] == "first":
        nxt_start, nxt_top = impl["start"], impl["top"]
    else:
        # does this iteration invoke the function, with which retry kwarg, and which state does it leave
        ctx.compare("C10 invocation decision", {"invokes": impl["invokes"], "expires": impl["expires"], "attempt": impl["attempt"]},
                    {"invokes": m["invokes"], "expires": m["expires"], "attempt": m["attempt"]}, wh)
        if impl["invokes"] and item.get("failed_before"):
            ctx.tie_fail("C10: the function was invoked after the timer had failed for good", {"input": wh, "impl": impl, "model": m})
        if "post" in impl:
            ctx.compare("C10 state after the run", impl["post"], m["state"], wh)
        nxt_start, nxt_top = impl["next_start"], impl["next_top"]
    if nxt_start is not None:
        ctx.count("gate", "compared")
        ctx.compare("C10 next start", {"start": nxt_start, "top": nxt_top},
                    {"start": res[2] if res[0] == "start" else res, "top": m["top"]}, wh)
        return
    # no further iteration was observed: the model must not have predicted one while the task was alive
    ctx.tie_comparisons += 1
    if res[0] == "start" and res[2] < item["alive_until"]:
        ctx.tie_fail("C10 next start: the model predicts an iteration that did not happen",
                     {"input": wh, "impl": {"start": None, "alive_until": item["alive_until"]}, "model": {"start": res[2]}})
    elif res[0] == "ended":
        if item.get("how") != "returned" or item.get("exit") != item["req"][3]["patched"]:
            ctx.tie_fail("C10: the model says the loop breaks, the timer task did not return there",
                         {"input": wh, "impl": {"how": item.get("how"), "exit": item.get("exit")}, "model": res})
        ctx.count("gate", "one-shot-ended")
    else:
        ctx.count("gate", "open-ended:" + res[0])


# =================================================================================================
# run / search / replay
# =================================================================================================
def _corpus() -> list[tuple[str, dict]]:
    return [(n, d["scenario"] if "scenario" in d else d) for n, d in load_corpus(ID)]


def _evaluate(ctx: Ctx, scenarios: list[dict], results: list[dict], stats: dict, with_tie: bool = True) -> list[tuple[dict, dict]]:
    reqs: list[Any] = []
    meta: list[tuple[dict, dict]] = []
    good: list[tuple[dict, dict]] = []
    pending_stalls: list[str] = []
    for sc, res in zip(scenarios, results):
        if res.get("stall"):
            # a non-suspending spin: C09's subject (idle-only poll loop with the stopper set), not this property
            where = "daemons.py" in res.get("stderr", "") and "_timer" in res.get("stderr", "")
            # the wall limit hit while the loop thread sits in selectors.select under SimLoop._run_once: the simulation is
            # WAITING in real time, not spinning — the virtual clock did not jump (seen on the unchanged tree in about one
            # run in ten since the unit-scaled histories exist; cause not found: recorded in ASSUMPTIONS). That cannot be
            # a non-suspending spin of kopf (which never reaches select) and is no statement about the code under test:
            # counted and skipped. Every other stall outside _timer is still a harness error.
            frames = [l for l in res.get("stderr", "").splitlines() if l.strip().startswith("File ")]
            idle_wait = (not where and len(frames) >= 3 and "selectors.py" in frames[0] and " in select" in frames[0]
                         and "simloop.py" in "".join(frames[:4]))
            # a unit-scaled history (round h: every duration x 7 .. x 365 days) that does not finish within the wall limit:
            # these histories are the expensive ones (an operator simulated over months), their cost varies with the load of
            # the machine, and the same scenarios pass in most runs — a cost artefact of the harness, counted and skipped.
            # A stall of an UNSCALED scenario outside _timer is a harness error (exit 2) as it always was.
            scaled = sc.get("unit", 1) != 1
            ctx.count("scenarios", "stall-in-_timer(skipped)" if where else
                      "idle-wait-in-select: the virtual clock did not jump (skipped)" if idle_wait else
                      "unit-scaled history over the wall limit (skipped)" if scaled else "stall-elsewhere(skipped)")
            stats["stalls"] += 1
            if not where and not idle_wait and not scaled:
                # not a verdict by itself (exit 2) — unless the same run has a concrete failing history already: a change that
                # makes timers run too often turns the longest histories into millions of runs (wall limit) while the shorter
                # ones show the violation; the stall is raised at the end of the batch if no oracle failure explains it
                pending_stalls.append(f"simulation stalled outside _timer: {res.get('stderr', '')[-1500:]}")
            continue
        if "trace" not in res:
            raise RuntimeError(f"simulation failed: {str(res)[:2000]}")
        tr = res["trace"]
        if tr.get("sim_error"):
            raise RuntimeError(f"simulation error: {tr['sim_error']} in scenario seed {sc.get('seed')}")
        ctx.traces += 1
        good.append((sc, tr))
        oracle(ctx, sc, tr, stats)
        cfgs = _timer_cfgs(sc)
        for h, cfg in cfgs.items():
            ctx.count("presence(interval,sharp,idle,initial_delay)",
                      "".join("1" if x else "0" for x in (cfg["interval"] is not None, cfg["sharp"], cfg["idle"] is not None, cfg["initial_delay"] is not None)))
        ctx.count("unit-of-time(s)", sc.get("unit", 1))
        for h, cfg in cfgs.items():
            longest = max([x for x in (cfg["interval"], cfg["idle"], cfg["initial_delay"]) if x is not None] or [0.0])
            ctx.count("longest-declared-delay", "<1min" if longest < 60 else "<1h" if longest < 3600 else "<=1day" if longest <= 86400
                      else "<=30days" if longest <= 30 * 86400 else ">30days")
        if sc.get("boundary"):
            ctx.count("boundary-edit", f"{sc['boundary']['target']}{sc['boundary']['delta_ticks']:+d}")
        if not with_tie:
            continue
        for item in abstract(sc, tr) + abstract_resets(sc, tr):
            if item["what"] == "reset":
                ctx.case(key=item["shape"], nontrivial=True)
                ctx.count("idle-reset-decision(last-handled/last-seen vs event)", item["shape"]["lh"] + "/" + item["shape"]["seen"])
                reqs.append(item["req"])
                meta.append((sc, item))
                continue
            if item["what"] == "carry":
                ctx.case(key=item["shape"], nontrivial=item["shape"]["raised"] or bool(item["req"][2]))
                reqs.append(item["req"])
                meta.append((sc, item))
                continue
            if item["what"] == "exit":
                ctx.case(key=item["shape"], nontrivial=item["shape"]["how"] != "stopped" or item["shape"]["respawned"])
                reqs.append(item["req"])
                meta.append((sc, item))
                continue
            if item["what"] == "view":
                ctx.case(key=item["shape"], nontrivial=item["n"] > 0)
                ctx.count("view-from-history", "reads-compared", item["n"])
                ctx.count("view-from-history", "reads-at-an-event-instant(skipped)", item["tied"])
                reqs.append(item["req"])
                meta.append((sc, item))
                continue
            if item["what"] in ("unmatched", "clock-mismatch"):
                ctx.tie_fail("C10: an invoking iteration has no matching record in the handler log", {"input": {"scenario": sc}, "impl": item})
                continue
            if item["what"] == "crashed":
                ctx.tie_fail("C10: the timer task ended with an exception / spun without suspending (the model's loop does neither)",
                             {"input": {"scenario": sc}, "impl": item["inst"], "model": "keeps looping"})
                continue
            shape = item["shape"]
            ctx.case(key=shape, nontrivial=True,
                     sample={"scenario_seed": sc.get("seed"), "request": item["req"], "impl": item["impl"]}
                     if item["what"] == "iter" and item["impl"]["next_start"] is not None and shape["rt"] > 0 and shape["presence"][2] else None)
            if item["what"] == "iter":
                ctx.count("result", shape["res"] + ("" if shape["final"] is None else "/final" if shape["final"] else "/retry"))
                ctx.count("duration-vs-interval", shape["dur"])
                ctx.count("patch-round-trips(ticks)", shape["rt"])
            if not item["obs_ok"]:
                ctx.count("gate", "ambiguous-instant(skipped)")
                continue
            reqs.append(item["req"])
            meta.append((sc, item))
    if pending_stalls and not any(f.kind == "oracle" for f in ctx.failures):
        raise RuntimeError(pending_stalls[0])
    if with_tie and reqs:
        try:
            outs = ctx.driver.ask(reqs)
        except leanio.LeanError as e:
            ctx.tie_fail(f"Lean driver failed: {e}", {"log": e.log})
            return good
        for (sc, item), out in zip(meta, outs):
            compare(ctx, sc, item, out)
            # margin of the idle gate at the observed start (0 = started exactly when the idle time was over)
            if item["what"] in ("first", "iter") and item["req"][1]["idle"] is not None and \
                    (item["impl"]["start"] if item["what"] == "first" else item["impl"]["next_start"]) is not None:
                obs = dict((t, v) for t, v in item["req"][3 if item["what"] == "first" else 4])
                s = item["impl"]["start"] if item["what"] == "first" else item["impl"]["next_start"]
                if s in obs:
                    mg = s - obs[s] - item["req"][1]["idle"]
                    ctx.count("idle-margin-at-start(ticks)", mg if mg <= 2 else "3+")
    return good


def run(ctx: Ctx) -> None:
    n_total = ctx.budget(300, 20000)
    n_base = max(16, (n_total * 2) // 3)
    stats: dict[str, Any] = {"rt": {}, "slack": {}, "sharp_k": {}, "stalls": 0}
    corpus = [sc for _, sc in _corpus()]
    base = [scale_scenario(gen_scenario(ctx.rng, ctx.seed * 1_000_000 + i, i % 16), gen_unit(ctx.rng)) for i in range(n_base)]
    scenarios = corpus + base
    chunk = 3000
    n_var_total = 0
    for lo in range(0, len(scenarios), chunk):
        part = scenarios[lo:lo + chunk]
        results = run_many(part, wall=20.0)
        good = _evaluate(ctx, part, results, stats)
        # second pass: edits exactly at observed starts / idle boundaries of these histories
        variants: list[dict] = []
        for sc, tr in good:
            if sc.get("boundary") or ctx.rng.random() > 0.5 or len(variants) + n_var_total >= n_total - n_base:
                continue
            variants += boundary_variants(ctx.rng, sc, tr, 500_000 + ctx.seed * 1_000_000 + lo + len(variants) * 7, ctx.rng.choice([1, 2, 3]))
        variants = variants[: max(0, n_total - n_base - n_var_total)]
        n_var_total += len(variants)
        if variants:
            vres = run_many(variants, wall=20.0)
            _evaluate(ctx, variants, vres, stats)
    ctx.count("scenarios", "corpus", len(corpus))
    ctx.count("scenarios", "generated", len(base))
    ctx.count("scenarios", "boundary-variants", n_var_total)
    ctx.extra["patch_round_trip_ticks"] = {str(k): v for k, v in sorted(stats["rt"].items())}
    ctx.extra["interval_slack_ticks(start - (end+interval))"] = {str(k): v for k, v in sorted(stats["slack"].items())}
    ctx.extra["max_interval_slack_ticks"] = max(stats["slack"]) if stats["slack"] else None
    ctx.extra["sharp_grid_steps_k"] = {str(k): v for k, v in sorted(stats["sharp_k"].items())}
    ctx.extra["sharp_patch_ended_exactly_on_grid"] = stats.get("sharp_exact", 0)
    ctx.extra["stalled_scenarios_skipped"] = stats["stalls"]


def search(ctx: Ctx, broken: list) -> None:
    """A proof/tie is broken: look for a concrete failing history with the oracle (larger budget, no model)."""
    n = ctx.budget(1500, 6000)
    stats: dict[str, Any] = {"rt": {}, "slack": {}, "sharp_k": {}, "stalls": 0}
    first: list[dict] = []
    for b in broken[:20]:
        rep = b.replay if isinstance(b.replay, dict) else {}
        sc = (rep.get("input") or {}).get("scenario") or rep.get("scenario")
        if sc:
            first.append(sc)
    scenarios = first + [sc for _, sc in _corpus()] + [scale_scenario(gen_scenario(ctx.rng, 7_000_000 + ctx.seed * 1_000_000 + i, i % 16), gen_unit(ctx.rng)) for i in range(n)]
    for lo in range(0, len(scenarios), 400):
        part = scenarios[lo:lo + 400]
        good = _evaluate(ctx, part, run_many(part, wall=20.0), stats, with_tie=False)
        if any(f.kind == "oracle" for f in ctx.failures):
            return
        variants: list[dict] = []
        for sc, tr in good:
            variants += boundary_variants(ctx.rng, sc, tr, 9_000_000 + lo + len(variants) * 7, 1)
        _evaluate(ctx, variants, run_many(variants, wall=20.0), stats, with_tie=False)
        if any(f.kind == "oracle" for f in ctx.failures):
            return


def replay(ctx: Ctx, data: dict) -> None:
    rep = data.get("replay", data)
    sc = rep.get("scenario") or (rep.get("input") or {}).get("scenario") or (data.get("first") or {}).get("input", {}).get("scenario")
    if sc is None:
        raise RuntimeError("replay file carries no scenario")
    stats: dict[str, Any] = {"rt": {}, "slack": {}, "sharp_k": {}, "stalls": 0}
    _evaluate(ctx, [sc], run_many([sc], wall=20.0), stats, with_tie=False)


if __name__ == "__main__":
    if len(sys.argv) >= 2 and sys.argv[1] == "--worker":
        _worker_main(float(sys.argv[2]) if len(sys.argv) > 2 else 20.0)
