"""Whole-operator runs for C12 (part S): the REAL `kopf.operator()` on the virtual-time loop against the
fake API server, with scripted per-object faults on the operator's own PATCH requests.

What is observed (nothing inside kopf is wrapped or patched: no `observe.installed`):
 * every PATCH the fake server received: object name, start time, how it was answered (the injected fault or the
   real answer), and when the answer left the server;
 * every handler invocation (scripted handlers of harness.sim.observe: name of the object, time);
 * whether the operator was still running when the scenario ended, and how it stopped.

`run_contained(sc, wall_limit)` has the signature of `scenario.run_scenario` (harness.sim.worker's `runner` hook).
Scenario keys beyond harness.sim.scenario's: `patch_faults`: {object name: [fault spec | null, ...]} — the i-th
PATCH request for that object gets the i-th entry (null = served normally); fault specs as in scenario.py
(["status", code, headers, details] | ["conn-before"] | ["timeout"]). The requests of an object are those of the
object itself and of its /status subresource (`sub`), in the order the server received them, whatever their
Content-Type (`ctype`: merge-patch or json-patch): which of the requests of `patching.patch_obj` the i-th fault
hits is decided by what the real operator sends.
"""
from __future__ import annotations

import copy
from typing import Any


def run_contained(sc: dict, wall_limit: float = 60.0) -> dict:
    from harness.sim import fakeapi, scenario, simloop
    holder: dict[str, Any] = {}

    async def main() -> dict:
        sim = scenario.Sim(copy.deepcopy(sc))
        holder["sim"] = sim
        queues = {name: list(script) for name, script in (sc.get("patch_faults") or {}).items()}
        timeout_total = float(sc.get("settings", {}).get("networking.request_timeout", 300.0))

        def rule(req: dict) -> Any:
            if req["method"] != "PATCH" or "/kopfexamples/" not in req["path"]:
                return None
            tail = req["path"].split("/kopfexamples/", 1)[1].split("?", 1)[0].strip("/").split("/")
            name, sub = tail[0], (tail[1] if len(tail) > 1 else None)
            q = queues.get(name)
            spec = q.pop(0) if q else None
            req["c12"] = {"name": name, "sub": sub, "spec": spec}
            # when the answer (or the error) reaches the client: the server's latency, plus the whole client-side
            # timeout for a request that is never answered
            req["c12"]["t_end"] = req["wall"] + sim.cluster.latency + (timeout_total if spec and spec[0] == "timeout" else 0.0)
            return None if spec is None else scenario._mk_fault(spec)

        sim.cluster.fault_rules.append(rule)
        await sim.run()
        op = sim.ops.get("op")
        died = None
        if op is not None and op.task is not None and op.task.done() and not op.task.cancelled():
            e = op.task.exception()
            if e is not None:
                died = f"{type(e).__name__}: {e!r}"[:300]
        patches: dict[str, list] = {}
        for r in sim.cluster.requests:
            info = r.get("c12")
            if info is None:
                continue
            patches.setdefault(info["name"], []).append(
                {"t": r["wall"], "t_end": info["t_end"], "spec": info["spec"], "resp": r.get("response"),
                 "ctype": r.get("ctype"), "sub": info.get("sub")})
        calls = [[c.get("name"), c["t"], c["id"]] for c in sim.obs.calls]
        return {"patches": patches, "calls": calls, "marks": [dict(m) for m in sim.marks], "died": died,
                "requests": len(sim.cluster.requests)}

    try:
        return simloop.run_sim(main, wall_limit=wall_limit)
    except (simloop.SimDeadlock, simloop.SimStall) as e:
        return {"sim_error": f"{type(e).__name__}: {e}"}
