"""C08 — accumulated patches are delivered completely, atomically and exactly once.

Model: lean/Kopf/Model/C08_Patching.lean (`patchObj`, the stateful server, `cycle` = carry-forward of
`memory.remaining_patch`; `settled`/`cycleForgetting` = the variant of commit 608a57d, kept for regression theorems). Theorems: lean/Kopf/Props/C08.lean.

Ties
 (D) carrier "event" (most cases): the REAL `processing.process_resource_event` per cycle — real memories,
     `Patch(memory.remaining_patch, body=body)`, `application.apply`, the hand-over of the remaining patch and the
     exception path are the code's own lines; only `process_resource_causes` is a stand-in that accumulates the
     case's fields and fns. Carrier "daemon": the REAL `patching.patch_obj` / `application.apply`, consecutive
     calls joined by the real `Patch(remaining, body=...)` constructor. Against the fake API server:
     a grid  sub-resource x initial object x fields x fns x (one foreign write right before one of the
     four possible requests) x (one injected 404/422 at one of them), enumerated completely in the
     thorough tier, sampled in quick, plus random patch contents / several slips / several faults.
     Compared with the Lean model: request list (kind = method+content type+subresource, payload —
     JSON-patches by their effect on the body they were computed from, the tested version), the uid
     every request landed on, response codes, the final server object, the returned body and the
     remaining fns.
 (S) whole-operator runs (real `kopf.operator`, fake API, virtual time): handlers that sleep while
     the object is deleted and recreated under the same name, foreign writes slipped between the
     merge-patch and the JSON-patch of a cycle, injected 422s; every `patch_obj` call observed there is
     replayed through the model from the server state it started on, and every
     `process_resource_event` must start its patch from `memory.remaining_patch`, or what remained must change nothing in
     the object as the cycle sees it AND in the freshest state the cycle gets to see (the variant of 608a57d failed the latter).
The Python oracle is written from the property text over the request log, the per-request server
snapshots and the returned values; it never consults the model.
"""
from __future__ import annotations

import copy
import functools
import itertools
import json
import logging
import multiprocessing
import os
import subprocess
import sys
from pathlib import Path
from typing import Any

from .. import leanio, rfc
from ..core import Ctx, load_corpus

ID = "C08"
LEVEL = "proof"
ENGINES = ["lean-model", "purediff", "kopfsim"]
TIE = ("D: the real processing.process_resource_event (only process_resource_causes replaced by a stand-in that accumulates the case's "
       "fields and fns; real memories, real application.apply, real hand-over of the remaining patch, real exception path) and, for the "
       "daemons' way, real patching.patch_obj / application.apply, against the stateful fake API, bounded-exhaustive grid "
       "(thorough) + random contents; the Resource handed to them (with its subresources) comes from the real scanning.scan_resources "
       "over the case's cluster (other resources beside the object's, related names, any entry order), and the model's `sub` from its own "
       "reading of the served discovery entries (readVersion, also compared with the real scan per group/version); "
       "S: every patch_obj call of whole-operator simulations (their clusters have such neighbours too) replayed through the model")
STRENGTH = "partial"    # DESIGN §8 sense (LEVEL stays the schema's technique category "proof")
LEVEL_TEXT = (
    "PARTIAL in the sense of DESIGN §8: `only ever lands on the object it was computed for` is proved under a guard only "
    "(same_object_partial; the full clause is false, finding F2), `not duplicated` holds for the finalizer list under the documented "
    "repeat-safety of handler fns only (not_duplicated_partial + witness), `applied exactly once` in closed loops and the eventual "
    "own-finalizer state rest on the oracle/tie; all other clauses have unguarded theorems. "
    "Lean theorems for ALL patch contents (well-formed field dicts x fn lists), with/without a status subresource, any list "
    "of foreign writes (edit / finalizer edit / delete / delete-and-recreate) before any of the four requests and any "
    "injected status (404, 422, any other API error): merge_delivered, routed_by_subresource, merge_complete, "
    "status_removal_delivered; fns_atomic, conflict_keeps_all_fns, remaining_only_after_refusal; carry-forward of "
    "process_resource_event after commit 1c8f3dd: carried_until_accepted (a handler-supplied fn stays in the memory and in "
    "every patch through ANY run of refused/failed cycles), accepted_call_empties_memory, carry_forward (any dict content of "
    "the next cycle: exactly one application of carried + newly decided fns to the then-fresh finalizer list); regression theorems about "
    "the variant of commit 608a57d (carried fns that yield no operation on the next cycle's body forgotten at its head; taken back by the "
    "rework that followed): forgetting_variant_forgets_only_fulfilled, forgetting_variant_same_when_quiet, forgetting_variant_loses_witness "
    "(finding C08-F4: the effect is removed again before the cycle's merge-patch — the code evaluates the fns on its response and delivers, the "
    "variant had forgotten them; replayed on the real code), "
    "stale_view_conflicts_and_carries (stale event body: refused again, nothing written, carried again), finalizer_redecided "
    "(relative to any decision function: the framework's conflicting finalizer edit is dropped and the decision on the fresh "
    "state is applied once — the code re-decides instead of the property's literal `carried and re-evaluated`); "
    "not_duplicated_partial + reapplied_after_status_conflict_witness (after a 422 on the FOURTH request the handler-supplied "
    "body fns are applied a second time: membership is preserved for state-checking fns, which docs/patches.rst demands; the "
    "order may change — documented contract, not a finding); patch_is_own_accumulation + delivery_sends_own_patch + "
    "daemon_delivery_not_repeated (an LTS of several daemons/timers of one object writing to and delivering their patches in any "
    "interleaving: the patch a daemon holds is exactly what its own invocation wrote, a delivery sends that and nothing else, an "
    "accepted one leaves nothing; tied by replaying the real interleavings — the handlers' own log of their writes + the runner "
    "tasks' deliveries — through `dstep`); daemon_exit_drops_remaining_witness (NOT LOST is false for a daemon that ends: its loop is left "
    "right after the last delivery, a refused one's remaining patch is dropped with the task — finding C08-F3, replayed on the real "
    "operator); remaining_stays_with_its_uid (the memory is per uid: a cycle for a re-used name starts clean); noop_patch_sends_nothing + returns_none_none_iff (a non-empty patch whose fns are no-ops "
    "sends nothing and returns (None, None), the very pair a vanished object gives: the caller cannot tell them apart — what "
    "application.apply does with that is C03/C06's clause); silent_404, raised_only_on_api_error; same_object_partial and the "
    "negation of the full same_object: name_reuse_witness (finding F2); `exactly when the resource has one` end to end: discovered_subresources "
    "(for EVERY cluster — any resources side by side, plurals that are prefixes/extensions/suffixes of one another, any subresource names, any order "
    "of the discovery entries — what scanning._read_version collects for a plural is what the cluster serves for that plural), "
    "status_belief_is_cluster_fact, status_routed_iff_served (a request goes to /status only if the cluster serves it for THIS resource, and then the "
    "main endpoint gets no status content), prefix_match_variant_witness (the delimiter-less match of seed C08g: a living object taken for vanished, "
    "status and finalizer lost). Hand-written model, tied to the real "
    "patch_obj/apply by a differential run (complete over the stated 32130-case grid in the thorough tier, sampled in quick, "
    "plus random contents, several writes per slot, error codes 400/409) and to the whole operator by replaying every "
    "observed patch_obj call. The eventual state of the framework's own finalizer and `applied exactly once` for handler fns "
    "in closed loops are checked by the oracle; so are: memory.remaining_patch after every real cycle (= the handler-supplied part of what "
    "the patching left; after a cycle that raised: what opened its patch), that carried transformations which do not open the next cycle's "
    "patch hold for that cycle's body AND for the freshest state its patching sees (fixed finding C08-F4), that no carried transformation "
    "leaves the cycle by an exception outside the error throttling (fixed finding C08-F5), that none is dropped on the evidence of a stale "
    "body while the server's object lacks its effect (open finding C08-F6), no merge-patch ever writes metadata.finalizers or a system field, a finalizer "
    "added by another actor right before any request stays until that actor removes it, a refused transformation of a timer is in its "
    "next accepted delivery, and every write of the operator to the object goes through patching.patch_obj.")
THEOREMS = [("Kopf.Props.C08", "Kopf.C08." + n) for n in [
    "merge_delivered", "routed_by_subresource", "merge_complete", "status_removal_delivered",
    "fns_atomic", "conflict_keeps_all_fns", "remaining_only_after_refusal",
    "carry_forward", "stale_view_conflicts_and_carries", "accepted_call_empties_memory", "carried_until_accepted",
    "forgetting_variant_forgets_only_fulfilled", "forgetting_variant_same_when_quiet", "forgetting_variant_loses_witness",
    "finalizer_redecided", "not_duplicated_partial", "reapplied_after_status_conflict_witness",
    "patch_is_own_accumulation", "delivery_sends_own_patch", "daemon_delivery_not_repeated",
    "daemon_exit_drops_remaining_witness", "remaining_stays_with_its_uid",
    "noop_patch_sends_nothing", "returns_none_none_iff",
    "silent_404", "raised_only_on_api_error", "same_object_partial", "name_reuse_witness",
    "discovered_subresources", "status_belief_is_cluster_fact", "status_routed_iff_served", "prefix_match_variant_witness"]]
RULE = (
    "grid: subresource(2) x initial object {plain, foreign+own finalizer, marked+own finalizer}(3) x fields {none, "
    "metadata annotations, spec, status, metadata+status}(5) x fns {none, [block], [allow], [block,allow], [setStatus], "
    "[block,setStatus], [user block, block]}(7) x slip {none | one of 4 request kinds x (edit spec, edit finalizers, delete, "
    "delete-and-recreate)}(17) x fault {none | one of 4 kinds x (404, 422)}(9) = 32130 cases (5/6 with process_resource_event's carry rule, 1/6 with the daemons'), half of them followed by a "
    "second (quiet) cycle that starts from the remaining patch; random stream: nested field dicts with null leaves, "
    "empty dicts, lists, unicode; 0-3 fns over two finalizer names and status keys, handler-supplied ones as plain functions, functools.partial "
    "(keyword `finalizer=`) and callable objects; 0-2 slip slots with 1-3 writes each; 0-2 faults over {404, 422, 400, 409}; directed stream `fulfil`: the write that causes the conflict brings all (or a part) of what the "
    "handler-supplied fns ask for, the next cycle comes with/without dict content and new fns, the effect is sometimes undone again before one of "
    "its requests or by its own merge-patch; a case is "
    "distinct & non-trivial by its abstract trace (request kinds, codes, uid hits, slip fired, outcome) when at least "
    "one request was sent; every generated case (85%) gets a cluster: 1-4 other resources whose plural extends `kopfexamples` / is a prefix "
    "of it / ends like it / is the same / is unrelated, in the same group/version, another version, another group or the core group, 70% "
    "with the opposite `status` fact, look-alike subresource names (statusx, xstatus, status/x, scale), discovery entries as listed / "
    "subresources first / last / reversed / shuffled; the object's Resource is what kopf's own scan of that cluster returns")
TRUSTED = [
    "harness/sim/fakeapi.py: merge-patch / json-patch(test) / status-subresource / finalizer+deletionTimestamp semantics; its API discovery "
    "answers (one flat entry list per group/version: resources and `plural/subresource` entries; 404 for a subresource that is not served)",
    "jsonpatch.JsonPatch.from_diff is taken by its contract (ops that turn the first document into the second); "
    "harness/rfc.py applies add/remove/replace/test/move/copy",
    "the abstraction: system metadata fields and metadata.finalizers are split off the body; JSON-patch ops are "
    "compared by their effect on the body they were computed from",
]
ASSUMPTIONS = [
    "merge-patch fields never address metadata.finalizers or system metadata (kopf's own never do: checked by the oracle on every merge request)",
    "labels/annotations values in patches are objects (Kubernetes rejects anything else)",
    "transformation functions: kopf's block_deletion/allow_deletion plus one user-style status setter; "
    "arbitrary user fns are outside the model (one that raises on some bodies appears in one closed-loop corpus scenario, oracle only: finding C08-F5)",
    "HTTP errors other than 404/422 only end the call with an exception here (modelled as `Fault.error`); retries of "
    "5xx/timeouts inside api.request are C12's subject (the differential run injects the non-retried 400/409 only; 403/429/5xx are retried there)",
    "an operator restart loses the in-memory remaining patch (handler-supplied fns of a conflicting cycle): outside the "
    "property's quantifier, not modelled",
    "handler-supplied fns are state-checking / safe to call repeatedly (docs/patches.rst); the model's fns all are",
    "the order of the two merge-patches is the code's (body, then status) in the model; the oracle does not depend on it",
    "which fns are `the framework's own` is decided by the oracle as: kopf's block_deletion/allow_deletion partials, whatever finalizer "
    "name they carry (a handler that queues kopf's private functions itself is not distinguished)",
]

ROOT = Path(__file__).resolve().parent.parent.parent
FIN = "kopf.zalando.org/KopfFinalizerMarker"
OTHER = "other.io/keep"
KINDS = ["mergeBody", "mergeStatus", "jsonBody", "jsonStatus"]
SYSTEM_META = ("name", "namespace", "uid", "creationTimestamp", "resourceVersion", "deletionTimestamp", "generation")
SIG_F2 = {"site": "patching.patch_obj",
          "shape": "request target uid differs from the uid the patch was computed for (name reuse)"}
SIG_F3 = {"site": "daemons._daemon", "shape": "the runner ends after a refused (422) delivery: the remaining transformations are dropped with it"}
SIG_STATUS_NULL = {"site": "patching.patch_obj",
                   "shape": "status: null with a status subresource: the removal is dropped, no request is sent"}


GROUP, VERSION, PLURAL = "kopf.dev", "v1", "kopfexamples"
SIG_ROUTE = {"site": "patching.patch_obj", "shape": "status routed to a missing subresource"}
SIG_LIVING_404 = {"site": "patching.patch_obj",
                  "shape": "a request for a living object was answered 404 (no such endpoint): the rest of the accumulated patch is dropped as for a vanished object"}
SIG_DISCOVERY = {"site": "scanning._read_version",
                 "shape": "what the operator takes for the resource's subresources is not what the cluster serves for it"}


# ----------------------------------------------------------------------------------------------
# the cluster around the object: the other resources served next to `kopfexamples` (and what their names have to do
# with its name), and the order of the entries in the API discovery answers
def make_cluster(fakeapi: Any, kex: Any, conf: dict | None) -> Any:
    """conf = {"siblings": [{"group","version","plural","kind","subs":[...], "namespaced"}], "order": "asis" |
    "subs-first" | "subs-last" | "reversed" | ["shuffled", seed]}; None: `kopfexamples` alone, as listed by fakeapi."""
    import random as _random

    class Cluster(fakeapi.Cluster):
        served_discovery: dict[str, list[str]]

        def discovery(self, path: str) -> dict | None:      # type: ignore[override]
            d = super().discovery(path)
            if d is not None and d.get("kind") == "APIResourceList":
                items = list(d["resources"])
                order = (conf or {}).get("order") or "asis"
                if order == "subs-first":
                    items = [i for i in items if "/" in i["name"]] + [i for i in items if "/" not in i["name"]]
                elif order == "subs-last":
                    items = [i for i in items if "/" not in i["name"]] + [i for i in items if "/" in i["name"]]
                elif order == "reversed":
                    items.reverse()
                elif isinstance(order, list) and order[0] == "shuffled":
                    _random.Random(f"{order[1]}:{path}").shuffle(items)
                d["resources"] = items
                self.served_discovery[d["groupVersion"]] = [i["name"] for i in items]
            return d

    c = Cluster([fakeapi.NAMESPACES, fakeapi.CRDS, kex])
    c.served_discovery = {}
    for n, sib in enumerate((conf or {}).get("siblings") or []):
        rd = fakeapi.ResourceDef(sib["group"], sib["version"], sib["plural"], sib.get("kind") or f"Sibling{n}",
                                 namespaced=bool(sib.get("namespaced", True)), subresources=tuple(sib.get("subs") or ()))
        if rd.key in c.resources:
            continue
        c.add_resource(rd, announce=False)
    return c


def own_subresources(sub: bool, conf: dict | None) -> tuple[str, ...]:
    """`status` if the case says so, plus the resource's other subresources (never `status` itself: look-alikes of it)."""
    return (("status",) if sub else ()) + tuple(x for x in ((conf or {}).get("own_subs") or []) if x != "status")


def cluster_facts(case: dict) -> dict[str, list[str]]:
    """What the case's cluster serves, from the case alone: resource -> its subresources."""
    out = {f"{GROUP}/{VERSION}/{PLURAL}": sorted(own_subresources(case["sub"], case.get("cluster"))), "/v1/namespaces": [],
           "apiextensions.k8s.io/v1/customresourcedefinitions": []}
    for sib in (case.get("cluster") or {}).get("siblings") or []:
        out.setdefault(f"{sib['group']}/{sib['version']}/{sib['plural']}", sorted(sib.get("subs") or []))
    return out


# ----------------------------------------------------------------------------------------------
# abstraction (shared by the tie and the oracle; the oracle only uses the plain views)
def uid_num(uid: str | None) -> int | None:
    return None if uid is None else int(str(uid).rsplit("-", 1)[1])


def strip_body(o: dict) -> dict:
    """The object minus system fields and finalizers (what the model calls `Obj.body`)."""
    out = {k: copy.deepcopy(v) for k, v in o.items() if k not in ("apiVersion", "kind", "metadata")}
    meta = {k: copy.deepcopy(v) for k, v in (o.get("metadata") or {}).items()
            if k not in SYSTEM_META and k != "finalizers"}
    if meta:
        out["metadata"] = meta
    return out


def abs_obj(o: dict | None) -> dict | None:
    if o is None:
        return None
    m = o["metadata"]
    return {"uid": uid_num(m["uid"]), "rv": int(m["resourceVersion"]), "marked": bool(m.get("deletionTimestamp")),
            "fins": list(m.get("finalizers") or []), "body": strip_body(o)}


def canon_model_obj(o: dict | None) -> dict | None:
    if o is None:
        return None
    o = dict(o)
    b = dict(o["body"])
    if "metadata" in b and not b["metadata"]:
        del b["metadata"]
    o["body"] = b
    return o


def req_kind(req: dict) -> str | None:
    if req["method"] != "PATCH":
        return None
    st = req["path"].endswith("/status")
    ct = req.get("ctype") or ""
    if ct.startswith("application/merge-patch+json"):
        return "mergeStatus" if st else "mergeBody"
    if ct.startswith("application/json-patch+json"):
        return "jsonStatus" if st else "jsonBody"
    return None


def abs_payload(kind: str, payload: Any, base: dict | None) -> dict:
    """merge: the payload; json: the tested version + the effect of the ops on the body they were
    computed from (`base`: the last accepted response, else the original body)."""
    if kind.startswith("merge"):
        return {"merge": payload}
    ops = list(payload or [])
    # a JSON-patch is applied as a whole or not at all (RFC 6902 §5): the position of the test does not matter
    tests = [n for n, op in enumerate(ops) if op.get("op") == "test" and op.get("path") == "/metadata/resourceVersion"]
    if len(tests) != 1:
        return {"raw": ops, "why": "no resourceVersion test"}
    try:
        test = int(ops[tests[0]]["value"])
    except (TypeError, ValueError):
        return {"raw": ops, "why": "no resourceVersion test"}
    rest = ops[:tests[0]] + ops[tests[0] + 1:]
    paths = [op.get("path", "") for op in rest] + [op["from"] for op in rest if "from" in op]
    other = [p for p in paths if not (p == "/metadata/finalizers" or p.startswith("/metadata/finalizers/")
                                      or p == "/status" or p.startswith("/status/"))]
    if other or base is None:
        return {"raw": ops, "why": "ops outside finalizers/status"}
    try:
        eff = rfc.apply_json_patch(base, rest)
    except rfc.PatchError:
        return {"raw": ops, "why": "ops do not apply to the freshest body the client has seen"}
    fins = list((eff.get("metadata") or {}).get("finalizers") or []) if any(p.startswith("/metadata/finalizers") for p in paths) else None
    status = eff.get("status") if any(p.startswith("/status") for p in paths) else None
    return {"test": test, "fins": fins, "status": status}


# ----------------------------------------------------------------------------------------------
# running one case on the real code
def _mk_fn(desc: list) -> Any:
    from kopf._cogs.structs import finalizers
    if desc[0] == "block":
        return functools.partial(finalizers.block_deletion, finalizer=desc[1])
    if desc[0] == "allow":
        return functools.partial(finalizers.allow_deletion, finalizer=desc[1])
    if desc[0] in ("ublock", "uallow"):
        # a handler-supplied function with the effect of block/allow, but not the framework's partial
        f, add = desc[1], desc[0] == "ublock"

        def user_fin(body: dict, f: str = f, add: bool = add) -> None:
            fins = body.setdefault("metadata", {}).setdefault("finalizers", [])
            if add and f not in fins:
                fins.append(f)
            if not add:
                fins[:] = [x for x in fins if x != f]
            if not fins:
                del body["metadata"]["finalizers"]
        return user_fin
    if desc[0] in ("pblock", "pallow"):
        # handler-supplied, same effect, but a functools.partial of a plain function (with kopf's own keyword name)
        return functools.partial(_user_fin_kw, finalizer=desc[1], add=desc[0] == "pblock")
    if desc[0] in ("cblock", "callow"):
        # handler-supplied, same effect, a callable object (neither a function nor a partial)
        return _UserFin(desc[1], desc[0] == "cblock")
    if desc[0] == "ufragile":
        # handler-supplied, the effect of `ublock`, but it READS a status key first and raises (KeyError) when the status or the key is not there
        k, f = desc[1], desc[2]

        def user_fragile(body: dict, k: str = k, f: str = f) -> None:
            body["status"][k]
            fins = body.setdefault("metadata", {}).setdefault("finalizers", [])
            if f not in fins:
                fins.append(f)
        return user_fragile
    if desc[0] == "uappend":
        # NOT safe to call repeatedly: appends to a status list
        k, v = desc[1], desc[2]

        def user_append(body: dict, k: str = k, v: Any = v) -> None:
            body.setdefault("status", {}).setdefault(k, []).append(copy.deepcopy(v))
        return user_append
    if desc[0] == "setStatus":
        k, v = desc[1], desc[2]

        def set_status(body: dict, k: str = k, v: Any = v) -> None:
            body.setdefault("status", {})[k] = copy.deepcopy(v)
        return set_status
    raise ValueError(desc)


def _user_fin_kw(body: dict, *, finalizer: str, add: bool) -> None:
    fins = body.setdefault("metadata", {}).setdefault("finalizers", [])
    if add and finalizer not in fins:
        fins.append(finalizer)
    if not add:
        fins[:] = [x for x in fins if x != finalizer]
    if not fins:
        del body["metadata"]["finalizers"]


class _UserFin:
    def __init__(self, f: str, add: bool) -> None:
        self.f, self.add = f, add

    def __call__(self, body: dict) -> None:
        _user_fin_kw(body, finalizer=self.f, add=self.add)


# The identity of a handler-supplied function (plain function / functools.partial / callable object) is a
# generator dimension only: the property, the oracle and the model speak of its effect.
_SHAPES = {"pblock": "ublock", "pallow": "uallow", "cblock": "ublock", "callow": "uallow"}


def norm_desc(d: list) -> list:
    return [_SHAPES.get(d[0], d[0])] + list(d[1:])


def norm_fns(fns: list) -> list:
    return [norm_desc(d) for d in fns]


class CaseRun:
    """One cluster + one object `ns/a`; runs one or two real patching calls on it."""

    def __init__(self, case: dict):
        from ..sim import fakeapi
        self.case = case
        self.fakeapi = fakeapi
        self.kex = fakeapi.ResourceDef(GROUP, VERSION, PLURAL, "KopfExample", namespaced=True,
                                       shortnames=("kex",), subresources=own_subresources(case["sub"], case.get("cluster")))
        self.c = make_cluster(fakeapi, self.kex, case.get("cluster"))
        ini = case["initial"]
        body = copy.deepcopy(ini.get("body") or {})
        if ini.get("fins"):
            body.setdefault("metadata", {})["finalizers"] = list(ini["fins"])
        self.c.create_raw(self.kex, "ns", "a", body)
        if ini.get("marked"):
            self.c.delete(self.kex, "ns", "a")
        self.cur: dict | None = None      # the cycle being run (slips/faults of it)
        self.log: list[dict] = []         # per-request observation of the current call
        self.names: dict[int, list] = {}  # id(fn object) -> its (normalised) description
        self.keep: list = []              # the fn objects stay alive for the whole case (ids are never reused)
        self.memories: Any = None         # the real per-object memories (carrier "event")
        self.c.before_request.append(self._before)
        self.c.fault_rules.append(self._fault)
        self.c.after_write.append(self._after)

    def get(self) -> dict | None:
        o = self.c.get(self.kex, "ns", "a")
        return copy.deepcopy(o) if o is not None else None

    def foreign(self, w: list) -> None:
        c, kex = self.c, self.kex
        if w[0] == "edit":
            c.edit(kex, "ns", "a", copy.deepcopy(w[1]))
        elif w[0] == "setFins":
            c.mutate(kex, "ns", "a", lambda b: b["metadata"].__setitem__("finalizers", list(w[1])))
        elif w[0] == "delete":
            c.delete(kex, "ns", "a")
        elif w[0] == "recreate":
            key = (kex.key, "ns", "a")
            if key in c.objects:
                c._remove(key)
            c.create_raw(kex, "ns", "a", copy.deepcopy(w[1]))
        else:
            raise ValueError(w)

    def _before(self, req: dict) -> None:
        kind = req_kind(req)
        rec = {"kind": kind, "slip": None, "req": req}
        if self.cur is not None and kind is not None:
            w = (self.cur.get("slips") or {}).get(kind)
            if w and kind not in self.cur["_slipped"]:
                self.cur["_slipped"].add(kind)
                ws = [w] if isinstance(w[0], str) else list(w)     # one write or several, in order
                for w1 in ws:
                    self.foreign(w1)
                rec["slip"] = ws[0] if len(ws) == 1 else ["several"] + [x[0] for x in ws]
        rec["pre"] = self.get()
        rec["post"] = rec["pre"]
        self.log.append(rec)

    def _fault(self, req: dict) -> Any:
        kind = req_kind(req)
        if self.cur is None or kind is None:
            return None
        code = (self.cur.get("faults") or {}).get(kind)
        if code and kind not in self.cur["_faulted"]:
            self.cur["_faulted"].add(kind)
            req["c08_injected"] = True
            return self.fakeapi.Fault("status", int(code))
        return None

    def _after(self, req: dict, out: dict | None) -> None:
        for rec in reversed(self.log):
            if rec["req"] is req:
                rec["post"] = self.get()
                break

    async def call(self, cyc: dict, remaining: Any, via: str, settings: Any, resource: Any, logger: Any,
                   event: bool = False) -> dict:
        """One cycle's patching.

        `event=False` (the daemons' way): `Patch(remaining, body=body)` + this cycle's fields and fns, handed to the real
        `patch_obj` / `apply`; the caller keeps what remained, as `_daemon/_timer` do.
        `event=True`: the REAL `processing.process_resource_event` on a MODIFIED event with the object as the server
        holds it, with the real per-object memories; only `process_resource_causes` is replaced by a stand-in that
        accumulates this cycle's fields and fns in the cycle's patch (what handlers and the framework's decisions do).
        So `Patch(memory.remaining_patch, body=body)`, `application.apply`, the hand-over of the remaining patch to the
        memory and the exception path are the code's own lines, whatever their helpers are called."""
        from kopf._cogs.clients import patching
        from kopf._cogs.structs import bodies, patches
        from kopf._core.actions import application
        orig = self.get()
        if cyc.get("orig") is not None and cyc["orig"] != "server":
            raise ValueError("explicit orig is not supported on the implementation side")
        if orig is None:
            return {"skipped": "no object to compute a patch for"}
        server_before = {"clock": self.c.rv, "uids": self.c.uid_counter, "obj": abs_obj(orig)}
        body = bodies.Body(copy.deepcopy(orig))
        fn_objs = [_mk_fn(d) for d in cyc["fns"]]
        self.keep.extend(fn_objs)
        names = self.names
        names.update({id(f): norm_desc(d) for f, d in zip(fn_objs, cyc["fns"])})
        self.cur = {"slips": cyc.get("slips") or {}, "faults": cyc.get("faults") or {}, "_slipped": set(), "_faulted": set()}
        self.log = []
        n0 = len(self.c.requests)
        out: dict[str, Any] = {"orig": abs_obj(orig), "orig_raw": orig, "server_before": server_before, "via": via}
        rem = None
        if event:
            await self._event_cycle(cyc, orig, fn_objs, out, settings, resource)
        else:
            if remaining is not None:
                self.keep.append(remaining[0])
                patch = patches.Patch(remaining[0], body=body)     # the carry-forward constructor of the code
            else:
                patch = patches.Patch(body=body)
            for k, v in copy.deepcopy(cyc["fields"]).items():
                patch[k] = v
            patch.fns.extend(fn_objs)
            out["fields"] = copy.deepcopy(dict(patch))
            out["fns"] = [names[id(f)] for f in patch.fns]
            if not patch:
                out["outcome"] = {"kind": "ok", "remaining": None, "body": None}
                out["empty"] = True
            else:
                try:
                    if via == "apply":
                        applied, rv, rem = await application.apply(settings=settings, resource=resource, body=body, patch=patch,
                                                                   delays=[], logger=logger)
                        out["outcome"] = {"kind": "ok", "remaining": None if rem is None else [names[id(f)] for f in rem.fns]}
                        out["apply_rv"] = rv
                    else:
                        rb, rem = await patching.patch_obj(settings=settings, resource=resource, namespace="ns", name="a",
                                                           patch=patch, logger=logger)
                        out["outcome"] = {"kind": "ok", "remaining": None if rem is None else [names[id(f)] for f in rem.fns],
                                          "body": None if rb is None else {"uid": uid_num(rb["metadata"]["uid"]),
                                                                           "rv": int(rb["metadata"]["resourceVersion"])}}
                        if rem is not None and dict(rem):
                            out["outcome"]["remaining_fields"] = dict(rem)
                except Exception as e:  # noqa: BLE001
                    from kopf._cogs.clients import errors
                    out["outcome"] = {"kind": "raised", "exc": type(e).__name__,
                                      "status": getattr(e, "status", None) if isinstance(e, errors.APIError) else None}
        self.cur = None
        reqs = []
        last_ok: dict | None = None
        for rec in self.log:
            r = rec["req"]
            kind = rec["kind"]
            if kind is None:
                reqs.append({"kind": None, "method": r["method"], "path": r["path"]})
                continue
            base = last_ok if last_ok is not None else orig
            reqs.append({"kind": kind, "payload": abs_payload(kind, r["payload"], base), "raw_payload": copy.deepcopy(r["payload"]),
                         "target": uid_num(r.get("target_uid")), "code": r["response"] if isinstance(r["response"], int) else str(r["response"]),
                         "slip": rec["slip"], "pre": rec["pre"], "post": rec["post"], "base_rv": int(base["metadata"]["resourceVersion"]),
                         "path": r["path"], "ctype": r["ctype"], "result": copy.deepcopy(r.get("result")),
                         "injected": bool(r.get("c08_injected"))})
            if r["response"] == 200 and r.get("result") is not None:
                last_ok = r["result"]
        assert len(self.c.requests) - n0 == len(self.log)
        out["reqs"] = reqs
        out["server_after"] = {"clock": self.c.rv, "uids": self.c.uid_counter, "obj": abs_obj(self.get())}
        out["final_raw"] = self.get()
        out["_remaining"] = None if rem is None else (rem, None)
        return out

    async def _event_cycle(self, cyc: dict, orig: dict, fn_objs: list, out: dict, settings: Any, resource: Any) -> None:
        import asyncio
        from kopf._cogs.clients import errors, patching
        from kopf._cogs.structs import ephemera
        from kopf._core.actions import lifecycles
        from kopf._core.engines import indexing
        from kopf._core.intents import registries
        from kopf._core.reactor import inventory, processing
        names = self.names
        if self.memories is None:
            self.memories = inventory.ResourceMemories()
        raw_event = {"type": "MODIFIED", "object": copy.deepcopy(orig)}
        seen: dict[str, Any] = {"calls": []}

        async def causes(**kw: Any) -> Any:
            patch = kw["patch"]
            seen["entry_fns"] = [names.get(id(f), ["unknown", repr(f)]) for f in patch.fns]
            seen["entry_fields"] = copy.deepcopy(dict(patch))
            for k, v in copy.deepcopy(cyc["fields"]).items():
                patch[k] = v
            patch.fns.extend(fn_objs)
            seen["fields"] = copy.deepcopy(dict(patch))
            seen["fns"] = [names.get(id(f), ["unknown", repr(f)]) for f in patch.fns]
            return [], False

        orig_patch_obj = patching.patch_obj
        orig_causes = processing.process_resource_causes

        async def patch_obj(**kw: Any) -> Any:
            rec: dict[str, Any] = {"name": kw.get("name"), "namespace": kw.get("namespace"),
                                   "fields": copy.deepcopy(dict(kw["patch"])),
                                   "fns": [names.get(id(f), ["unknown", repr(f)]) for f in kw["patch"].fns]}
            seen["calls"].append(rec)
            rb, rem = await orig_patch_obj(**kw)
            rec["ret"] = (rb, rem)
            return rb, rem

        patching.patch_obj = patch_obj  # type: ignore[assignment]
        processing.process_resource_causes = causes  # type: ignore[assignment]
        exc: Exception | None = None
        try:
            await processing.process_resource_event(
                lifecycle=lifecycles.all_at_once, indexers=indexing.OperatorIndexers(), registry=registries.OperatorRegistry(),
                settings=settings, memories=self.memories, memobase=ephemera.Memo(), resource=resource,
                raw_event=raw_event, event_queue=asyncio.Queue(), no_throttling=True)  # type: ignore[arg-type]
        except Exception as e:  # noqa: BLE001
            exc = e
        finally:
            patching.patch_obj = orig_patch_obj  # type: ignore[assignment]
            processing.process_resource_causes = orig_causes  # type: ignore[assignment]
        if "fns" not in seen:
            raise RuntimeError(f"process_resource_event did not reach process_resource_causes: {exc!r}")
        out["fields"], out["fns"] = seen["fields"], seen["fns"]
        out["entry_fns"] = seen["entry_fns"]
        out["event"] = True
        out["patch_obj_calls"] = [{k: v for k, v in c.items() if k != "ret"} for c in seen["calls"]]
        if exc is not None:
            out["outcome"] = {"kind": "raised", "exc": type(exc).__name__,
                              "status": getattr(exc, "status", None) if isinstance(exc, errors.APIError) else None}
        elif not seen["calls"]:
            out["outcome"] = {"kind": "ok", "remaining": None, "body": None}
            out["empty"] = not seen["fields"] and not seen["fns"]
        else:
            rb, rem = seen["calls"][-1]["ret"]
            out["outcome"] = {"kind": "ok", "remaining": None if rem is None else [names.get(id(f), ["unknown", repr(f)]) for f in rem.fns],
                              "body": None if rb is None else {"uid": uid_num(rb["metadata"]["uid"]),
                                                               "rv": int(rb["metadata"]["resourceVersion"])}}
            if rem is not None and dict(rem):
                out["outcome"]["remaining_fields"] = dict(rem)
        memory = await self.memories.recall(raw_event["object"])  # type: ignore[arg-type]
        mrem = memory.remaining_patch
        out["memory_after"] = None if mrem is None else [names.get(id(f), ["unknown", repr(f)]) for f in mrem.fns]
        if mrem is not None and dict(mrem):
            out["memory_fields"] = copy.deepcopy(dict(mrem))


async def _run_case(case: dict, settings: Any, logger: Any) -> dict:
    from kopf._cogs.clients import auth
    from kopf._cogs.structs import credentials, references
    run = CaseRun(case)
    sess = run.fakeapi.FakeSession(run.c)
    vault = credentials.Vault({"fake": credentials.AiohttpSession(
        aiohttp_session=sess, server="http://fake", default_namespace="default")})  # type: ignore[arg-type]
    auth.vault_var.set(vault)
    # The resource (with what kopf believes its subresources to be) comes from kopf's own API discovery of the
    # case's cluster -- never built by hand: `sub` of the case is the CLUSTER's fact, the routing is the code's.
    from kopf._cogs.clients import scanning
    found = await scanning.scan_resources(settings=settings, logger=logger)
    discovered = {"resources": {f"{r.group}/{r.version}/{r.plural}": sorted(r.subresources) for r in found},
                  "served": copy.deepcopy(run.c.served_discovery)}
    mine = [r for r in found if (r.group, r.version, r.plural) == (GROUP, VERSION, PLURAL)]
    if len(mine) != 1:
        return {"cycles": [], "discovered": discovered, "undiscovered": True}
    resource = mine[0]
    cycles = []
    remaining = None
    event = case.get("carrier", "event") == "event"
    for cyc in case["cycles"]:
        o = await run.call(cyc, remaining, case.get("via", "patch_obj"), settings, resource, logger, event=event)
        if "skipped" in o:
            cycles.append(o)
            break
        rem = o.pop("_remaining")
        if not event:
            if o["outcome"]["kind"] != "raised":
                remaining = rem     # `patch = cause.patch = patches.Patch(remaining_patch, body=body)`: everything is kept
                o["memory_after"] = None if remaining is None else [run.names[id(f)] for f in remaining[0].fns]
            # after an exception the runner's patch object is as it was (the model's `.raised => mem`)
        cycles.append(o)
    return {"cycles": cycles, "discovered": discovered}


def run_cases_here(cases: list[dict]) -> list[dict]:
    """Run cases on the real code in this process under virtual time."""
    from ..sim import simloop
    from kopf._cogs.configs import configuration
    logger = logging.getLogger("verif.c08")
    logger.setLevel(logging.CRITICAL + 1)
    logging.getLogger("kopf").setLevel(logging.CRITICAL + 1)
    out: list[dict] = []

    async def main() -> None:
        settings = configuration.OperatorSettings()
        for case in cases:
            try:
                out.append(await _run_case(case, settings, logger))
            except Exception as e:  # noqa: BLE001
                import traceback
                out.append({"harness_error": f"{type(e).__name__}: {e}", "tb": traceback.format_exc()[-2000:]})

    simloop.run_sim(main, wall_limit=900.0)
    return out


def _shard(cases: list[dict]) -> list[dict]:
    return run_cases_here(cases)


def run_cases(cases: list[dict]) -> list[dict]:
    n = len(cases)
    workers = min(int(os.environ.get("VERIF_JOBS", "0")) or 16, os.cpu_count() or 1, max(1, n // 200))
    if workers <= 1:
        return run_cases_here(cases)
    size = (n + workers * 4 - 1) // (workers * 4)
    shards = [cases[i:i + size] for i in range(0, n, size)]
    with multiprocessing.get_context("fork").Pool(workers) as pool:
        res = pool.map(_shard, shards)
    return [r for part in res for r in part]


# ----------------------------------------------------------------------------------------------
# the oracle: from the property text, over observations only
def o_apply_fns(fns: list, fins: list[str], status: Any) -> tuple[list[str], Any]:
    """Intended meaning of the transformations, written independently of kopf and of the model."""
    fins = list(fins)
    status = copy.deepcopy(status)
    for d in fns:
        if d[0] in ("block", "ublock"):
            if d[1] not in fins:
                fins.append(d[1])
        elif d[0] in ("allow", "uallow"):
            fins = [x for x in fins if x != d[1]]
        elif d[0] == "ufragile":
            if not isinstance(status, dict) or d[1] not in status:
                raise LookupError(d[1])         # the function cannot be evaluated on this state
            if d[2] not in fins:
                fins.append(d[2])
        elif d[0] == "setStatus":
            status = dict(status or {})
            status[d[1]] = copy.deepcopy(d[2])
        elif d[0] == "uappend":
            status = dict(status or {})
            status[d[1]] = list(status.get(d[1]) or []) + [copy.deepcopy(d[2])]
    return fins, status


def leaves(p: Any, path: tuple = ()) -> list[tuple[tuple, Any]]:
    if isinstance(p, dict):
        out = []
        for k, v in p.items():
            out += leaves(v, path + (k,))
        return out
    return [(path, p)]


def resolve(o: Any, path: tuple) -> tuple[bool, Any]:
    cur = o
    for k in path:
        if not isinstance(cur, dict) or k not in cur:
            return False, None
        cur = cur[k]
    return True, cur


def strip_nulls(x: Any) -> Any:
    if isinstance(x, dict):
        return {k: strip_nulls(v) for k, v in x.items() if v is not None}
    return x


def _fins(o: dict | None) -> list[str]:
    return list(((o or {}).get("metadata") or {}).get("finalizers") or [])


def _rv(o: dict | None) -> int | None:
    return None if o is None else int(o["metadata"]["resourceVersion"])


def oracle_call(ctx: Ctx, case: Any, i: int, o: dict, sub: bool, where: str = "patch_obj") -> None:
    """One patching call `o` (cycle `i` of `case`)."""
    def fail(what: str, sig: dict) -> None:
        ctx.oracle_fail(f"{where}: {what}", {"case": case, "cycle": i}, sig)

    reqs = o["reqs"]
    fields, fns = o["fields"], o["fns"]
    out = o["outcome"]
    orig_uid = o["orig"]["uid"]
    if any(r["kind"] is None for r in reqs):
        fail("a request that is not a PATCH with a merge/json content type", {"site": "patching.patch_obj", "shape": "unexpected request"})
        return
    # -- 404 / exceptions --------------------------------------------------------------------------
    codes = [r["code"] for r in reqs]
    if out["kind"] == "raised":
        # an API error the call does not handle itself may end it by an exception (C12's subject); everything sent
        # before it is judged like in any other call
        last = reqs[-1] if reqs else None
        api_error = last is not None and last["code"] not in (200, 404) and not (last["code"] == 422 and last["kind"].startswith("json"))
        if not api_error:
            # (a handler-supplied function that cannot be evaluated on the freshest body the call has: its own exception, not the patching's)
            ref = o.get("orig_raw")
            for r in reqs:
                if r["code"] == 200 and r["post"] is not None:
                    ref = r["post"]
            own_exc = False
            if any(d[0] == "ufragile" for d in fns) and ref is not None:
                try:
                    o_apply_fns(fns, _fins(ref), ref.get("status"))
                except LookupError:
                    own_exc = True
            if own_exc:
                ctx.count("outcome_detail", "a transformation function raised on the freshest body")
                return
            fail(f"patching raised {out.get('exc')}", {"site": "patching.patch_obj", "shape": "exception out of patching"})
            return
    for n, r in enumerate(reqs):
        if r["code"] == 404:
            # `A vanished object (404) ends patching silently` -- an object that has NOT vanished must get everything that was
            # accumulated for it: a 404 which nobody scripted, for an object that is there right before and right after the
            # request, is the answer of an endpoint the resource does not have
            if r.get("injected") is False and r["pre"] is not None and r["post"] is not None \
                    and r["pre"]["metadata"]["uid"] == r["post"]["metadata"]["uid"]:
                fail(f"the {r['kind']} request to {r['path']} was answered 404 although the object is there (uid {r['pre']['metadata']['uid']}): "
                     f"the patching took it for vanished and dropped the rest of {fields} + {fns}", SIG_LIVING_404)
            if n != len(reqs) - 1:
                fail("requests continued after a 404", {"site": "patching.patch_obj", "shape": "request after 404"})
            if out["kind"] != "ok" or out.get("remaining") is not None or out.get("body") is not None:
                fail(f"a vanished object did not end the patching silently: {out}", {"site": "patching.patch_obj", "shape": "404 not silent"})
    # -- same object ---------------------------------------------------------------------------------
    for r in reqs:
        if r["target"] is not None and r["target"] != orig_uid:
            fail(f"{r['kind']} request computed for uid {orig_uid} was served on uid {r['target']}", SIG_F2)
            break
    # -- merge-patches: complete, routed by the subresource -------------------------------------------
    want: list[tuple[str, dict]] = []
    body_part = {k: v for k, v in fields.items() if not (sub and k == "status")}
    if body_part:
        want.append(("mergeBody", body_part))
    if sub and "status" in fields:
        want.append(("mergeStatus", {"status": fields["status"]}))
    got = [(r["kind"], r["raw_payload"], r["code"]) for r in reqs if r["kind"].startswith("merge")]
    stopped = any(c != 200 for c in codes)
    # (the order of the two merge-patches is not part of the property)
    unmatched = list(got)
    for k, pl in want:
        m = next((g for g in unmatched if g[0] == k), None)
        if m is not None:
            unmatched.remove(m)
            if leanio.canon(m[1]) != leanio.canon(pl):
                fail(f"the {k} request carries {m[1]}, the accumulated patch asks for {pl}",
                     {"site": "patching.patch_obj", "shape": "merge-patch content or routing differs from the accumulated patch"})
                break
        elif not any(g[2] != 200 for g in got):
            # no earlier request ended the call, yet this part was never sent
            if k == "mergeStatus" and pl == {"status": None}:
                fail("`status: null` of the patch never reached the server (status subresource)", SIG_STATUS_NULL)
            else:
                fail(f"part {k} of the accumulated patch was never sent: {pl}",
                     {"site": "patching.patch_obj", "shape": "a part of the merge-patch was not sent"})
            break
    if unmatched and len(got) > len(want):
        fail(f"unexpected extra merge requests {[g[:2] for g in unmatched]}", {"site": "patching.patch_obj", "shape": "extra merge request"})
    elif unmatched:
        fail(f"merge requests {[g[:2] for g in unmatched]} are not what the accumulated patch asks for ({want})",
             {"site": "patching.patch_obj", "shape": "merge-patch content or routing differs from the accumulated patch"})
    # -- state-dependent edits never travel in a merge-patch ----------------------------------------------
    # A merge-patch carries no precondition. The finalizer list (and the system fields) written by one would be a value
    # computed from SOME earlier state, applied to whatever is there now: exactly what the versioned JSON-patch is for.
    for r in reqs:
        if r["kind"].startswith("merge") and isinstance(r["raw_payload"], dict):
            meta = r["raw_payload"].get("metadata")
            touched = [k for k in (meta if isinstance(meta, dict) else {}) if k == "finalizers" or k in SYSTEM_META]
            if touched:
                fail(f"a merge-patch (no version test) writes metadata.{touched[0]}: {r['raw_payload']}",
                     {"site": "patching.patch_obj", "shape": "state-dependent field written by an unversioned merge-patch"})
                break
    if not sub and any(r["kind"] in ("mergeStatus", "jsonStatus") for r in reqs):
        fail("a /status request although the resource has no status subresource", SIG_ROUTE)
    for r in reqs:
        if r["kind"].startswith("merge") and r["code"] == 200:
            post = r["post"]
            if post is None:
                continue
            for path, v in leaves(r["raw_payload"]):
                found, cur = resolve(post, path)
                if v is None:
                    if found:
                        fail(f"field {'.'.join(path)} still present after its removal was patched", {"site": "patching.patch_obj", "shape": "merge field not on the server after its request"})
                elif not found or leanio.canon(cur) != leanio.canon(strip_nulls(v)):
                    fail(f"field {'.'.join(path)}={v!r} is not on the server right after its request (found {cur!r})",
                         {"site": "patching.patch_obj", "shape": "merge field not on the server after its request"})
    # -- transformations: atomic at a version ----------------------------------------------------------
    js = [r for r in reqs if r["kind"].startswith("json")]
    for r in js:
        pl = r["payload"]
        if "raw" in pl:
            fail(f"malformed JSON-patch ({pl.get('why')}): {r['raw_payload']}",
                 {"site": "patching.patch_obj", "shape": "JSON-patch: " + str(pl.get("why"))})
            continue
        pre, post = r["pre"], r["post"]
        if r["code"] == 404 or pre is None:
            continue
        injected = r["target"] is None      # a scripted fault answered instead of the server
        if _rv(pre) != pl["test"] or injected:
            if r["code"] == 200:
                fail("a JSON-patch computed at a stale version was accepted", {"site": "patching.patch_obj", "shape": "stale JSON-patch accepted"})
            if leanio.canon(post) != leanio.canon(pre):
                fail("a rejected JSON-patch changed the object", {"site": "patching.patch_obj", "shape": "stale JSON-patch wrote something"})
            if r is not reqs[-1]:
                fail("requests continued after a conflicting JSON-patch", {"site": "patching.patch_obj", "shape": "request after 422"})
            if r["code"] != 422:
                continue        # another API error: an exception, nothing to carry
            if out["kind"] != "ok" or out.get("remaining") is None or leanio.canon(out["remaining"]) != leanio.canon(fns):
                fail(f"after a conflict the remaining patch is {out.get('remaining')}, expected all fns {fns}",
                     {"site": "patching.patch_obj", "shape": "conflict does not return the transformations as remaining"})
        else:
            if r["code"] != 200:
                fail(f"a JSON-patch at the current version was answered {r['code']}", {"site": "fakeapi", "shape": "fresh JSON-patch rejected"})
                continue
            # computed from the body at that version: the effect is the fns on that very state
            if r["kind"] == "jsonBody":
                wf, ws = o_apply_fns(fns, _fins(pre), pre.get("status"))
                gone = post is None
                if not gone and _fins(post) != wf:
                    fail(f"finalizers after the JSON-patch are {_fins(post)}, the transformations on the tested state give {wf}",
                         {"site": "patching.patch_obj", "shape": "JSON-patch effect differs from the transformations on the tested state"})
                if gone and not (pre["metadata"].get("deletionTimestamp") and not wf):
                    fail("object vanished by a JSON-patch that does not release it", {"site": "fakeapi", "shape": "unexpected release"})
                if not sub and not gone and leanio.canon(post.get("status")) != leanio.canon(strip_nulls(ws)):
                    fail("status after the JSON-patch differs from the transformations on the tested state",
                         {"site": "patching.patch_obj", "shape": "JSON-patch effect differs from the transformations on the tested state"})
            else:
                _, ws = o_apply_fns([d for d in fns if d[0] in ("setStatus", "uappend")], [], pre.get("status"))
                if post is not None and leanio.canon(post.get("status")) != leanio.canon(strip_nulls(ws)):
                    fail("status after the status JSON-patch differs from the transformations on the tested state",
                         {"site": "patching.patch_obj", "shape": "JSON-patch effect differs from the transformations on the tested state"})
    if out["kind"] == "ok" and out.get("remaining") is not None:
        if not (js and js[-1] is reqs[-1] and js[-1]["code"] == 422):
            fail(f"a remaining patch {out['remaining']} is returned without a conflict", {"site": "patching.patch_obj", "shape": "remaining without conflict"})
    # -- transformations requested but silently skipped ------------------------------------------------
    if out["kind"] == "ok" and out.get("remaining") is None and not stopped and fns:
        last = None
        for r in reqs:
            if r["code"] == 200 and r["post"] is not None:
                last = r["post"]
        ref = last if last is not None else o["orig_raw"]
        final = o["final_raw"]
        if final is not None and final["metadata"]["uid"] == ref["metadata"]["uid"] and not js:
            wf, ws = o_apply_fns(fns, _fins(ref), ref.get("status"))
            if wf != _fins(ref) or leanio.canon(strip_nulls(ws)) != leanio.canon(ref.get("status")):
                fail("transformations that would change the object were neither sent nor returned as remaining",
                     {"site": "patching.patch_obj", "shape": "transformations lost"})


SIG_NOT_CARRIED = {"site": "patches.Patch", "shape": "remaining transformations not carried"}
SIG_MEMORY = {"site": "processing.process_resource_event",
              "shape": "memory.remaining_patch is not the handler-supplied part of what the cycle's patching left"}
SIG_F5 = {"site": "processing.process_resource_event",
          "shape": "a carried transformation raised when it was evaluated at the head of the cycle: the exception left the cycle outside the "
                   "per-object error throttling (the worker and the operator stop)"}
SIG_F6 = {"site": "patching.patch_obj",
          "shape": "carried transformations need no operation on the stale body at hand and are dropped without a versioned request, "
                   "although the server's object lacks their effect"}
SIG_F4 = {"site": "processing.process_resource_event",
          "shape": "carried transformations were forgotten as fulfilled on the cycle's body, but a fresher state (the server's at that moment, "
                   "or the one the same cycle's patching gets back) lacks their effect: neither sent nor carried on"}


def handler_supplied(d: list) -> bool:
    """The framework's own finalizer edits are decided anew in every cycle (they are not carried by
    process_resource_event); everything a handler appended is."""
    return d[0] not in ("block", "allow")


def o_noop(fns: list, obj: dict | None) -> bool:
    """One application of the transformations to this state of the object changes nothing: their effect is present."""
    if obj is None or any(d[0] == "unknown" for d in fns):
        return False
    try:
        wf, ws = o_apply_fns(fns, _fins(obj), obj.get("status"))
    except LookupError:
        return False
    return wf == _fins(obj) and leanio.canon(ws) == leanio.canon(obj.get("status"))


def freshest_seen(o: dict) -> dict | None:
    """The freshest state of the object that one patching call has seen: the object after its last accepted request
    (None: it sent nothing that was accepted, it knows the body it was computed for only)."""
    last = None
    for r in o["reqs"]:
        if r["code"] == 200 and r["post"] is not None:
            last = r["post"]
    return last


def oracle_case(ctx: Ctx, case: dict, obs: dict) -> None:
    cycles = obs["cycles"]
    sub = case["sub"]
    event = case.get("carrier", "event") == "event"
    # `exactly when the resource has one`: what the operator learnt about every resource of the cluster (by its own API
    # discovery) is what the cluster serves for THAT resource -- whatever else is served beside it, in whatever order listed
    disc = obs.get("discovered")
    if disc is not None:
        facts = cluster_facts(case)
        for key in sorted(facts):
            got = disc["resources"].get(key)
            if got is None or sorted(got) != sorted(facts[key]):
                ctx.oracle_fail(f"resource {key}: the cluster serves the subresources {facts[key]}, the operator's discovery says {got} "
                                f"(entries served: {disc['served']})", {"case": case, "cycle": None}, SIG_DISCOVERY)
                break
    for i, o in enumerate(cycles):
        if "skipped" in o or o.get("empty"):
            continue
        oracle_call(ctx, case, i, o, sub, where="event cycle" if o.get("event") else case.get("via", "patch_obj"))
        if o.get("event"):
            pc = o.get("patch_obj_calls") or []
            if len(pc) != 1 or pc[0]["name"] != "a" or pc[0]["namespace"] != "ns" \
                    or leanio.canon(pc[0]["fields"]) != leanio.canon(o["fields"]) or pc[0]["fns"] != o["fns"]:
                ctx.oracle_fail(f"the cycle accumulated {o['fields']} + {o['fns']}; handed to the patching: {pc}",
                                {"case": case, "cycle": i},
                                {"site": "processing.process_resource_event", "shape": "the accumulated patch is not what is handed to the patching"})
    # carry-forward (from the property: `carried forward and re-evaluated against a fresh state in the next cycle, so its
    # effect is neither lost nor duplicated`): what remained for an object (and nothing else) opens the next cycle of that
    # object -- or one application of it to the object as that cycle sees it changes nothing (its effect is there: the
    # re-evaluation is done, nothing is left to deliver); never dropped while it would still change the body at hand.
    # A runner (daemon/timer) hands its patch on as it is. An exception leaves what opened the cycle.
    mems: dict[Any, list | None] = {}
    before: list[list] = []
    judged: set[int] = set()        # cycles whose carry-forward was reported already
    for i, o in enumerate(cycles):
        if "skipped" in o:
            before.append([])
            continue
        key = o["orig"]["uid"] if event else "runner"
        exp = list(mems.get(key) or [])
        own = norm_fns(case["cycles"][i]["fns"])
        fulfilled = bool(exp) and event and o_noop(exp, o["orig_raw"])
        if o["fns"] == exp + own:
            opened = exp
            if fulfilled:
                ctx.count("carried", "fulfilled on the cycle's body, handed on all the same")
            elif exp:
                ctx.count("carried", "in the next cycle's patch")
        elif fulfilled and o["fns"] == own:
            opened = []
            ctx.count("carried", "fulfilled on the cycle's body: forgotten")
            # ... but then the re-evaluation must hold for the freshest state this very cycle gets to see: a state that
            # lacks the effect again (somebody removed it meanwhile, or the cycle's own merge-patch did) with the
            # transformations neither sent nor kept for the next cycle is a lost effect
            seen = freshest_seen(o)
            if seen is not None and seen["metadata"]["uid"] == o["orig_raw"]["metadata"]["uid"] and not o_noop(exp, seen):
                judged.add(i)
                ctx.oracle_fail(f"{exp} remained for this object and were forgotten at the head of the cycle (no-ops on its body: finalizers "
                                f"{_fins(o['orig_raw'])}, status {o['orig_raw'].get('status')}); the object after the cycle's last accepted request "
                                f"has finalizers {_fins(seen)}, status {seen.get('status')}: their effect is not there, they were neither sent nor carried on",
                                {"case": case, "cycle": i}, SIG_F4)
        else:
            opened = exp
            judged.add(i)
            ctx.oracle_fail(f"the cycle's patch holds {o['fns']}: what remained for this object is {exp}"
                            f"{' (not fulfilled on the body of this cycle)' if exp and not fulfilled else ''}, the cycle itself accumulated {own}",
                            {"case": case, "cycle": i}, SIG_NOT_CARRIED)
        before.append(opened)
        out = o["outcome"]
        if out["kind"] == "raised":
            new = opened or None
        else:
            rem = out.get("remaining")
            new = None if rem is None else ([d for d in rem if handler_supplied(d)] if event else list(rem))
            new = new or None
        if event and "memory_after" in o:
            if o["memory_after"] != new or o.get("memory_fields"):
                ctx.oracle_fail(f"after the cycle ({out['kind']}, remaining {out.get('remaining')}) the memory holds {o['memory_after']} "
                                f"{o.get('memory_fields') or ''}, expected {new}", {"case": case, "cycle": i}, SIG_MEMORY)
        mems[key] = new
    for i in range(1, len(cycles)):
        a, b = cycles[i - 1], cycles[i]
        if "skipped" in a or "skipped" in b:
            continue
        if a["outcome"]["kind"] == "raised":
            continue            # the memory stays as it was: covered by the cycle before
        if i in judged:
            continue            # reported above
        carried = before[i]     # what opened this cycle's patch (the forgotten ones hold on its body: nothing more to apply)
        if not carried:
            continue
        quiet = not any(r["slip"] for r in b["reqs"]) and all(r["code"] == 200 for r in b["reqs"]) and b["outcome"]["kind"] == "ok"
        start = b["orig_raw"]
        final = b["final_raw"]
        if quiet and b["outcome"].get("remaining") is None:
            ref = start
            for r in b["reqs"]:
                if r["kind"].startswith("merge") and r["post"] is not None:
                    ref = r["post"]
            wf, ws = o_apply_fns(b["fns"], _fins(ref), ref.get("status"))
            released = bool(ref["metadata"].get("deletionTimestamp")) and not wf
            if final is None:
                if not released:
                    ctx.oracle_fail("object vanished in the carry-forward cycle", {"case": case, "cycle": i},
                                    {"site": "patching.patch_obj", "shape": "carry-forward: object vanished"})
                continue
            if _fins(final) != wf or leanio.canon(final.get("status")) != leanio.canon(strip_nulls(ws)):
                ctx.oracle_fail(f"carried transformations {carried}: final finalizers {_fins(final)} / status {final.get('status')}, "
                                f"one application to the fresh state gives {wf} / {ws}", {"case": case, "cycle": i},
                                {"site": "patching.patch_obj", "shape": "carried transformation lost or duplicated"})
            if len(set(_fins(final))) != len(_fins(final)) and len(set(_fins(ref))) == len(_fins(ref)):
                ctx.oracle_fail("a finalizer is duplicated after the carry-forward", {"case": case, "cycle": i},
                                {"site": "patching.patch_obj", "shape": "carried transformation lost or duplicated"})


# ----------------------------------------------------------------------------------------------
# the tie: the same case through the Lean model
def model_request(case: dict, obs: dict) -> list | None:
    if not obs["cycles"]:
        return None
    first = obs["cycles"][0]
    if "skipped" in first:
        return None
    cycles = []
    for cyc, o in zip(case["cycles"], obs["cycles"]):
        if "skipped" in o:
            break
        cycles.append({"fields": cyc["fields"], "fns": norm_fns(cyc["fns"]), "orig": "server",
                       "slips": cyc.get("slips") or {}, "faults": {k: v for k, v in (cyc.get("faults") or {}).items() if v}})
    req = {"sub": case["sub"], "daemon": case.get("carrier", "event") == "daemon",
           "server": first["server_before"], "memory": None, "cycles": cycles}
    served = (obs.get("discovered") or {}).get("served") or {}
    if f"{GROUP}/{VERSION}" in served:
        # the model's `sub` is what ITS reading of the served discovery entries gives (Model/C08_Discovery.lean), not the case's flag
        req["discovery"] = {"names": served[f"{GROUP}/{VERSION}"], "plural": PLURAL}
    return ["C08.cycles", req]


def impl_view(o: dict, via: str) -> dict:
    out = dict(o["outcome"])
    out.pop("exc", None)
    out.pop("status", None)
    if via == "apply":
        out.pop("body", None)
    view = {"reqs": [{"kind": r["kind"], "payload": r["payload"], "target": r["target"], "code": r["code"]} for r in o["reqs"]],
            "server": o["server_after"], "outcome": out}
    if "memory_after" in o:
        view["memory"] = o["memory_after"]
    return view


def model_view(m: dict, via: str, with_memory: bool = False) -> dict:
    res = m["result"]
    out = dict(res["outcome"])
    if out["kind"] == "gone":
        out = {"kind": "ok", "remaining": None, "body": None}
    if via == "apply":
        out.pop("body", None)
    srv = dict(res["server"])
    srv["obj"] = canon_model_obj(srv["obj"])
    view = {"reqs": res["reqs"], "server": srv, "outcome": out}
    if "memory" in m and (out["kind"] != "raised" or with_memory):
        view["memory"] = m["memory"]
    return view


def abstract_key(case: dict, obs: dict) -> tuple[Any, bool]:
    tr = []
    nontrivial = False
    for o in obs["cycles"]:
        if "skipped" in o:
            tr.append("skipped")
            continue
        rs = [(r["kind"], r["code"], None if r["target"] is None else r["target"] == o["orig"]["uid"],
               r["slip"][0] if r["slip"] else None) for r in o["reqs"]]
        nontrivial = nontrivial or bool(rs)
        out = o["outcome"]
        tr.append([rs, out["kind"], None if out.get("remaining") is None else len(out["remaining"]),
                   sorted(o["fields"].keys()), [d[0] for d in o["fns"]]])
    ini = case["initial"]
    return {"sub": case["sub"], "ini": [bool(ini.get("marked")), len(ini.get("fins") or [])], "via": case.get("via"), "tr": tr}, nontrivial


def ask_driver(ctx: Ctx, reqs: list) -> list:
    """`ctx.driver.ask` with retries: other checks may rebuild shared .olean files at that moment."""
    import time
    last: Exception | None = None
    for attempt in range(4):
        try:
            return ctx.driver.ask(reqs)
        except leanio.LeanError as e:
            last = e
            time.sleep(3 + 4 * attempt)
            leanio.lake_build(["Kopf.Drv.All"])
    assert last is not None
    raise last


# ----------------------------------------------------------------------------------------------
# generators
INITIALS = {
    "plain": {"body": {"spec": {"x": 0}, "metadata": {"annotations": {"keep": "k"}}, "status": {"seen": 0}}, "fins": [], "marked": False},
    "held": {"body": {"spec": {"x": 0}, "status": {"seen": 0}}, "fins": [OTHER, FIN], "marked": False},
    "marked": {"body": {"spec": {"x": 0}, "metadata": {"labels": {"l": "1"}}}, "fins": [FIN], "marked": True},
}
FIELDS = {
    "none": {},
    "meta": {"metadata": {"annotations": {"kopf.zalando.org/last-handled-configuration": "{\"spec\":{\"x\":0}}\n"}}},
    "spec": {"spec": {"y": [1, 2], "x": 1}},
    "status": {"status": {"create_fn": {"ok": True}, "seen": None}},
    "mixed": {"metadata": {"annotations": {"kopf.zalando.org/create_fn": "{\"started\":\"2030\"}", "keep": None}},
              "status": {"kopf": {"progress": {"create_fn": {"retries": 1}}}}},
}
FNS = {
    "none": [],
    "block": [["block", FIN]],
    "allow": [["allow", FIN]],
    "both": [["block", FIN], ["allow", FIN]],
    "status": [["setStatus", "observed", 7]],
    "block+status": [["block", FIN], ["setStatus", "observed", 7]],
    "user": [["ublock", "user.io/u"], ["block", FIN]],
}
WRITES = {
    "edit": ["edit", {"spec": {"x": 5}}],
    "fins": ["setFins", [OTHER, "late.io/f"]],
    "delete": ["delete"],
    "recreate": ["recreate", {"spec": {"x": 9}}],
}


def grid() -> list[dict]:
    cases = []
    slips = [None] + [(k, w) for k in KINDS for w in WRITES]
    faults = [None] + [(k, c) for k in KINDS for c in (404, 422)]
    n = 0
    for sub, ini, fl, fn, sl, fa in itertools.product([False, True], INITIALS, FIELDS, FNS, slips, faults):
        n += 1
        cyc: dict[str, Any] = {"fields": FIELDS[fl], "fns": FNS[fn], "slips": {}, "faults": {}}
        if sl is not None:
            cyc["slips"] = {sl[0]: WRITES[sl[1]]}
        if fa is not None:
            cyc["faults"] = {fa[0]: fa[1]}
        case = {"sub": sub, "initial": INITIALS[ini], "cycles": [cyc], "via": "apply" if n % 5 == 0 else "patch_obj",
                "carrier": "daemon" if n % 6 == 0 else "event", "tag": f"grid:{int(sub)}:{ini}:{fl}:{fn}:{sl}:{fa}"}
        if n % 2 == 0:
            case["cycles"].append({"fields": {}, "fns": [], "slips": {}, "faults": {}})
        cases.append(case)
    return cases


def _rand_value(rng: Any, depth: int) -> Any:
    r = rng.random()
    if depth <= 0 or r < 0.45:
        return rng.choice([0, 1, -3, True, False, "", "v", "üñí—✓", "a/b~c", [1, "x"], [], [{"k": None}], 2 ** 40])
    if r < 0.55:
        return {}
    return {rng.choice(["a", "b", "c", "d.e", "ключ"]): _rand_value(rng, depth - 1) for _ in range(rng.choice([1, 1, 2, 3]))}


def _rand_fields(rng: Any, initial: dict) -> dict:
    out: dict[str, Any] = {}
    if rng.random() < 0.55:
        ann = {}
        for _ in range(rng.choice([1, 1, 2])):
            k = rng.choice(["kopf.zalando.org/h1", "kopf.zalando.org/last-handled-configuration", "keep", "x.io/üñí", "kopf.zalando.org/h2"])
            ann[k] = rng.choice([None, "1", "{\"a\":1}\n", ""]) if rng.random() < 0.8 else None
        out.setdefault("metadata", {})["annotations"] = ann
    if rng.random() < 0.2:
        out.setdefault("metadata", {})["labels"] = {rng.choice(["l", "m"]): rng.choice([None, "1", "two"])}
    if rng.random() < 0.3:
        out["spec"] = rng.choice([{"x": rng.randrange(5)}, {"x": None}, {"nested": {"deep": {"k": _rand_value(rng, 1)}}}, {"lst": [1, {"a": None}]}])
    r = rng.random()
    if r < 0.45:
        out["status"] = {rng.choice(["seen", "h1", "kopf"]): _rand_value(rng, 2) for _ in range(rng.choice([1, 2]))}
        if rng.random() < 0.3:
            out["status"][rng.choice(["seen", "gone"])] = None
    elif r < 0.5:
        out["status"] = {}
    elif r < 0.56:
        out["status"] = None
    if rng.random() < 0.1:
        out[rng.choice(["extra", "data"])] = _rand_value(rng, 2)
    return out


def _rand_initial(rng: Any) -> dict:
    body: dict[str, Any] = {"spec": {"x": rng.randrange(3)}}
    if rng.random() < 0.6:
        body["metadata"] = {"annotations": {k: "old" for k in rng.sample(["keep", "kopf.zalando.org/h1", "kopf.zalando.org/h2"], rng.choice([1, 2]))}}
    if rng.random() < 0.3:
        body.setdefault("metadata", {})["labels"] = {"l": "0"}
    if rng.random() < 0.6:
        body["status"] = {"seen": 0, "h1": {"a": 1}} if rng.random() < 0.5 else {"seen": 1}
    fins = rng.choice([[], [], [FIN], [OTHER], [OTHER, FIN], [FIN, OTHER], [OTHER, FIN, "third.io/z"]])
    return {"body": body, "fins": fins, "marked": bool(fins) and rng.random() < 0.3}


def _rand_fns(rng: Any) -> list:
    out = []
    for _ in range(rng.choice([0, 1, 1, 1, 2, 2, 3])):
        r = rng.random()
        f = FIN if rng.random() < 0.75 else rng.choice([OTHER, "new.io/n"])
        if r < 0.3:
            out.append(["block", f])
        elif r < 0.55:
            out.append(["allow", f])
        elif r < 0.7:
            out.append([rng.choice(["ublock", "ublock", "pblock", "cblock"]), rng.choice(["user.io/u", f])])
        elif r < 0.8:
            out.append([rng.choice(["uallow", "uallow", "pallow", "callow"]), rng.choice(["user.io/u", f])])
        elif r < 0.93:
            out.append(["setStatus", rng.choice(["seen", "observed"]), rng.choice([1, "s", {"a": [1]}, True])])
        else:
            out.append(["uappend", "log", rng.choice(["x", "y", 1])])
    return out


def _rand_write(rng: Any) -> list:
    r = rng.random()
    if r < 0.3:
        return ["edit", rng.choice([{"spec": {"x": 77}}, {"metadata": {"labels": {"z": "9"}}}, {"status": {"seen": 42}},
                                    {"metadata": {"annotations": {"keep": None}}}])]
    if r < 0.55:
        return ["setFins", rng.choice([[], [OTHER], [FIN], [OTHER, FIN], [FIN, "late.io/f"], ["late.io/f", OTHER, FIN]])]
    if r < 0.75:
        return ["delete"]
    return ["recreate", rng.choice([{"spec": {"x": 9}}, {"spec": {"x": 0}, "status": {"seen": 5}}, {}])]


def _fulfilling_writes(fns: list, fins: list[str], how: str) -> list:
    """Foreign writes that bring what the handler-supplied transformations ask for (`all`), or a part of it (`part`)."""
    hs = [norm_desc(d) for d in fns if handler_supplied(d) and d[0] != "uappend"]
    if how == "part":
        hs = hs[:max(1, len(hs) // 2)]
    wf, ws = o_apply_fns(hs, fins, None)
    ws = ws or {}
    out: list = []
    if wf != list(fins):
        out.append(["setFins", wf])
    if ws:
        out.append(["edit", {"status": ws}])
    return out


def gen_fulfil(rng: Any, i: int) -> dict:
    """The conflict is caused by a write that fulfils the transformations (the other actor did the same thing): what is
    carried changes nothing in the next cycle's body. That cycle comes with or without dict content, with or without new fns,
    and sometimes the effect is undone again before one of its requests (or by its own merge-patch)."""
    ini = _rand_initial(rng)
    ini["marked"] = False
    sub = rng.random() < 0.5
    hs = []
    for _ in range(rng.choice([1, 1, 2])):
        r = rng.random()
        if r < 0.45:
            hs.append([rng.choice(["ublock", "pblock", "cblock"]), rng.choice(["user.io/u", "new.io/n"])])
        elif r < 0.6:
            hs.append([rng.choice(["uallow", "pallow", "callow"]), rng.choice([OTHER, "third.io/z", "user.io/u"])])
        else:
            hs.append(["setStatus", rng.choice(["seen", "observed"]), rng.choice([1, "s", {"a": [1]}, True])])
    fw = [["block", FIN]] if rng.random() < 0.4 else []
    fns0 = hs + fw if rng.random() < 0.7 else fw + hs
    how = rng.choice(["all", "all", "all", "part"])
    ws = _fulfilling_writes(fns0, ini["fins"], how)
    if not ws:      # nothing to bring: any edit makes the conflict
        ws = [["edit", {"spec": {"x": 33}}]]
    has_status_fn = any(d[0] == "setStatus" for d in hs)
    kind0 = "jsonStatus" if (sub and has_status_fn and any(d[0] != "setStatus" for d in fns0) and rng.random() < 0.3) else \
        ("jsonBody" if any(d[0] != "setStatus" for d in fns0) or not sub else "jsonStatus")
    c0: dict[str, Any] = {"fields": _rand_fields(rng, ini) if rng.random() < 0.5 else {}, "fns": fns0,
                          "slips": {kind0: ws if len(ws) > 1 else ws[0]}, "faults": {}}
    c1: dict[str, Any] = {"fields": _rand_fields(rng, ini) if rng.random() < 0.6 else {},
                          "fns": (list(fw) if rng.random() < 0.5 else []) + ([rng.choice(hs)] if rng.random() < 0.15 else []),
                          "slips": {}, "faults": {}}
    r = rng.random()
    if r < 0.3:
        # the effect is undone again right before one of this cycle's requests
        undo: list = [["setFins", list(ini["fins"])]] if any(d[0] != "setStatus" for d in hs) else []
        if has_status_fn:
            undo.append(["edit", {"status": {d[1]: None for d in hs if d[0] == "setStatus"}}])
        c1["slips"][rng.choice(KINDS)] = undo if len(undo) > 1 else undo[0]
    elif r < 0.4:
        c1["faults"][rng.choice(KINDS)] = rng.choice([404, 422, 409, 400])
    elif r < 0.5 and has_status_fn:
        # the cycle's own merge-patch removes the status value the carried function had set
        c1["fields"] = {"status": {d[1]: None for d in hs if d[0] == "setStatus"}}
    cycles = [c0, c1, {"fields": {}, "fns": [], "slips": {}, "faults": {}}]
    return {"sub": sub, "initial": ini, "cycles": cycles, "via": rng.choice(["patch_obj", "apply"]),
            "carrier": rng.choice(["event", "event", "event", "daemon"]), "tag": f"fulfil:{i}"}


def gen_random(rng: Any, i: int) -> dict:
    ini = _rand_initial(rng)
    ncyc = rng.choice([1, 1, 2, 2, 3])
    cycles = []
    for c in range(ncyc):
        cyc: dict[str, Any] = {"fields": _rand_fields(rng, ini) if (c == 0 or rng.random() < 0.4) else {},
                               "fns": _rand_fns(rng) if (c == 0 or rng.random() < 0.3) else [], "slips": {}, "faults": {}}
        quiet_tail = c > 0 and rng.random() < 0.5
        if not quiet_tail:
            for _ in range(rng.choice([0, 1, 1, 2])):
                cyc["slips"][rng.choice(KINDS)] = _rand_write(rng) if rng.random() < 0.7 else \
                    [_rand_write(rng) for _ in range(rng.choice([2, 2, 3]))]
            for _ in range(rng.choice([0, 0, 1, 2])):
                cyc["faults"][rng.choice(KINDS)] = rng.choice([404, 422, 422, 409, 400])
        cycles.append(cyc)
    return {"sub": rng.random() < 0.5, "initial": ini, "cycles": cycles, "via": rng.choice(["patch_obj", "patch_obj", "apply"]),
            "carrier": rng.choice(["event", "event", "daemon"]), "tag": f"random:{i}"}


def name_relation(sib: dict) -> str:
    """What the sibling's name has to do with `kopfexamples` of kopf.dev/v1 (for the histograms)."""
    p = sib["plural"]
    where = "same group/version" if (sib["group"], sib["version"]) == (GROUP, VERSION) else \
        "other version" if sib["group"] == GROUP else "core group" if not sib["group"] else "other group"
    rel = "same plural" if p == PLURAL else "extends ours" if p.startswith(PLURAL) else "prefix of ours" if PLURAL.startswith(p) else \
        "ends like ours" if p.endswith(PLURAL) or PLURAL.endswith(p) else "contains ours" if PLURAL in p else "unrelated"
    return f"{rel}, {where}"


_SUBS = ["status", "scale", "statusx", "xstatus", "status/x", "approval"]


def gen_cluster(rng: Any, sub: bool) -> dict | None:
    """The resources served beside `kopfexamples`: names that extend it, are prefixes of it, end like it, contain it, are
    unrelated; in its own group/version, another version, another group, the core group; each with its own subresources
    (with/without `status`, look-alikes of `status`); and the order of the entries of the discovery answers."""
    if rng.random() < 0.15:
        return None
    sibs = []
    for _ in range(rng.choice([1, 1, 2, 2, 3, 4])):
        r = rng.random()
        if r < 0.35:
            plural = PLURAL + rng.choice(["ets", "x", "2", "-old", "es", "s"])
        elif r < 0.55:
            plural = PLURAL[:rng.choice([1, 4, 8, len(PLURAL) - 1, len(PLURAL) - 1])]
        elif r < 0.65:
            plural = rng.choice(["x" + PLURAL, "examples", "s", "my" + PLURAL + "x"])
        elif r < 0.77:
            plural = PLURAL
        else:
            plural = rng.choice(["widgets", "widgetsets", "pods", "status", "jobs"])
        r = rng.random()
        group, version = (GROUP, VERSION) if r < 0.7 else (GROUP, rng.choice(["v1beta1", "v2", "v1x"])) if r < 0.82 else \
            ("", "v1") if r < 0.88 else (rng.choice(["other.dev", "kopf.dev.x", "kopf"]), rng.choice(["v1", "v2"]))
        if (group, version, plural) == (GROUP, VERSION, PLURAL):
            group = "other.dev"
        # mostly the opposite of ours as to `status`: the neighbour whose fact must not rub off on us
        has_status = (not sub) if rng.random() < 0.7 else sub
        subs = (["status"] if has_status else []) + [x for x in _SUBS[1:] if rng.random() < 0.15]
        rng.shuffle(subs)
        sibs.append({"group": group, "version": version, "plural": plural, "kind": f"Sibling{len(sibs)}", "subs": subs,
                     "namespaced": rng.random() < 0.85})
    order = rng.choice(["asis", "asis", "subs-first", "subs-last", "reversed", ["shuffled", rng.randrange(10 ** 6)]])
    # our own resource's other subresources: names that look like `status` but are not it
    own = [x for x in _SUBS[1:] if rng.random() < 0.25] if rng.random() < 0.35 else []
    return {"siblings": sibs, "order": order, "own_subs": own}


def with_cluster(case: dict, rng: Any) -> dict:
    if "cluster" in case:
        return case
    case = dict(case)
    case["cluster"] = gen_cluster(rng, bool(case["sub"]))
    return case


# ----------------------------------------------------------------------------------------------
def evaluate(ctx: Ctx, cases: list[dict], tie: bool = True) -> None:
    results = run_cases(cases)
    reqs, views, wheres = [], [], []
    disc_seen: dict[tuple, tuple[dict, dict]] = {}     # (group/version, entries as served) -> (first case, what kopf's scan made of them)
    for case, obs in zip(cases, results):
        if "harness_error" in obs:
            raise RuntimeError(f"case failed in the harness: {obs['harness_error']}\n{obs.get('tb')}\n{json.dumps(case)[:2000]}")
        oracle_case(ctx, case, obs)
        key, nontrivial = abstract_key(case, obs)
        sample = None
        if nontrivial and len(ctx.samples) < 6 and (case.get("tag", "").startswith("random") or any(r["slip"] for o in obs["cycles"] if "reqs" in o for r in o["reqs"])):
            sample = {"case": {k: v for k, v in case.items()},
                      "impl": [impl_view(o, case.get("via", "patch_obj")) for o in obs["cycles"] if "reqs" in o]}
        ctx.case(key=key, nontrivial=nontrivial, sample=sample)
        ctx.count("source", case.get("tag", "?").split(":")[0])
        ctx.count("via", case.get("via", "patch_obj") if case.get("carrier", "event") == "daemon" else "real process_resource_event")
        for cyc in case["cycles"]:
            for d in cyc["fns"]:
                ctx.count("fn_shape", {"p": "functools.partial", "c": "callable object"}.get(d[0][0], "function") if d[0] not in ("block", "allow") else "kopf's own partial")
        ctx.count("subresource", case["sub"])
        sibs = (case.get("cluster") or {}).get("siblings") or []
        ctx.count("cluster_siblings", len(sibs))
        ctx.count("own_other_subresources", ",".join(sorted((case.get("cluster") or {}).get("own_subs") or [])) or "none")
        ctx.count("discovery_order", str(((case.get("cluster") or {}).get("order") or "asis") if not isinstance((case.get("cluster") or {}).get("order"), list) else "shuffled"))
        for sib in sibs:
            ctx.count("sibling_name", f"{name_relation(sib)}; status subresource: {'status' in (sib.get('subs') or [])}")
        rels = {name_relation(sib) for sib in sibs if ("status" in (sib.get("subs") or [])) != bool(case["sub"])}
        ctx.count("sibling_that_differs_in_status", ",".join(sorted(rels)) or "none")
        for gv, names in ((obs.get("discovered") or {}).get("served") or {}).items():
            dkey = (gv, tuple(names))
            if dkey not in disc_seen:
                disc_seen[dkey] = (case, {k.rsplit("/", 1)[1]: v for k, v in obs["discovered"]["resources"].items()
                                          if k.rsplit("/", 1)[0] == (gv if "/" in gv else "/" + gv)})
        cyc_obs = [o for o in obs["cycles"] if "reqs" in o]
        for a, b in zip(cyc_obs, cyc_obs[1:]):
            # the documented re-application: 3rd request accepted, 4th refused, everything applied again next time
            ks = [(r["kind"], r["code"]) for r in a["reqs"]]
            if ("jsonBody", 200) in ks and ("jsonStatus", 422) in ks and b["outcome"].get("remaining") is None \
                    and a["final_raw"] is not None and b["final_raw"] is not None and all(r["code"] == 200 and not r["slip"] for r in b["reqs"]) \
                    and case.get("carrier", "event") == "daemon" \
                    and all((not r["slip"]) or r["slip"][0] == "edit" for r in a["reqs"]):
                fa, fb = _fins(a["final_raw"]), _fins(b["final_raw"])
                ctx.count("reapplied_after_status_conflict",
                          "same list" if fa == fb else "order changed" if sorted(fa) == sorted(fb) else "membership changed")
        for o in obs["cycles"]:
            if "reqs" not in o:
                ctx.count("cycle", "skipped (object absent)")
                continue
            ctx.count("requests_per_call", len(o["reqs"]))
            ctx.count("outcome", o["outcome"]["kind"] + ("+remaining" if o["outcome"].get("remaining") is not None else ""))
            ctx.count("fns_len", len(o["fns"]))
            for r in o["reqs"]:
                ctx.count("request", f"{r['kind']}:{r['code']}")
                if r["slip"]:
                    ctx.count("slip_fired", f"{r['kind']}:{r['slip'][0]}")
                if r["target"] is not None and r["target"] != o["orig"]["uid"]:
                    ctx.count("landed_on_other_uid", r["kind"])
        if tie:
            mr = model_request(case, obs)
            if mr is not None:
                reqs.append(mr)
                views.append((case, obs))
    if not tie or not (reqs or disc_seen):
        return
    dkeys = list(disc_seen)
    try:
        outs = ask_driver(ctx, reqs + [["C08.discover", list(names)] for _gv, names in dkeys])
    except leanio.LeanError as e:
        ctx.tie_fail(f"Lean driver failed: {e}", {"log": e.log})
        return
    # the discovery part of the model (`readVersion`) against kopf's own scan of the same entries
    for dkey, out in zip(dkeys, outs[len(reqs):]):
        case, impl_res = disc_seen[dkey]
        if not out or out[0] != "ok":
            ctx.tie_fail("driver rejected a discovery answer", {"case": case, "names": list(dkey[1]), "answer": out})
            continue
        ctx.compare("C08 discovery: resources and their subresources", {k: sorted(v) for k, v in impl_res.items()},
                    {pl: sorted(subs) for pl, subs in out[1]}, {"case": case, "group_version": dkey[0], "names": list(dkey[1])})
        ctx.count("discovery_answers_tied", "distinct (group/version, entry list)")
    outs = outs[:len(reqs)]
    for (case, obs), req, out in zip(views, reqs, outs):
        if not out or out[0] != "ok":
            ctx.tie_fail("driver rejected a case", {"case": case, "request": req, "answer": out})
            continue
        via = case.get("via", "patch_obj")
        mcycles = out[1]["cycles"]
        icycles = [o for o in obs["cycles"] if "skipped" not in o]
        impl = [impl_view(o, via) for o in icycles]
        model = [model_view(m, via, "memory_after" in o) for m, o in zip(mcycles, icycles)]
        ctx.compare("C08 patching call", impl, model, {"case": case})
        ctx.traces += 1


def corpus_cases() -> list[dict]:
    out = []
    for name, d in load_corpus(ID):
        if d.get("kind") == "closed-loop" or "scenario" in d:
            continue
        case = d.get("case") or (d.get("replay") or {}).get("case") or d
        if "cycles" in case:
            case = dict(case)
            case.setdefault("tag", f"corpus:{name}")
            out.append(case)
    return out


def run(ctx: Ctx) -> None:
    cases = corpus_cases()
    g = grid()
    if ctx.tier == "thorough":
        cases += g
        ctx.exhaustive = True
    else:
        n = ctx.budget(1800, len(g))
        cases += ctx.rng.sample(g, min(n, len(g)))
        ctx.exhaustive = False
    nrand = ctx.budget(1200, 40000)
    cases += [gen_random(ctx.rng, ctx.seed * 1_000_000 + i) for i in range(nrand)]
    cases += [gen_fulfil(ctx.rng, ctx.seed * 1_000_000 + i) for i in range(ctx.budget(300, 8000))]
    crng = __import__("random").Random(f"C08-clusters:{ctx.seed}")     # its own stream: the cases above stay what they were
    cases = [c if c.get("tag", "").startswith("corpus:") else with_cluster(c, crng) for c in cases]
    evaluate(ctx, cases)
    ctx.extra["grid_size"] = len(g)
    ctx.extra["strength"] = STRENGTH
    from . import sim_c08 as c08_closed
    c08_closed.run(ctx)


def search(ctx: Ctx, broken: list) -> None:
    """A proof or the correspondence is broken: oracle only, whole grid + 10x random, biased by the
    diverging cases (they are re-run first)."""
    first = []
    for b in broken[:20]:
        rep = b.replay if isinstance(b.replay, dict) else {}
        case = (rep.get("input") or {}).get("case") or rep.get("case")
        if case and "cycles" in case:
            first.append(case)
    evaluate(ctx, first, tie=False)
    if any(f.kind == "oracle" and f.signature not in (SIG_F2, SIG_STATUS_NULL, SIG_F3, SIG_F6) for f in ctx.failures):
        return
    cases = grid() + [gen_random(ctx.rng, 9_000_000 + ctx.seed * 1_000_000 + i) for i in range(ctx.budget(12000, 100000))]
    cases += [gen_fulfil(ctx.rng, 9_000_000 + ctx.seed * 1_000_000 + i) for i in range(ctx.budget(3000, 20000))]
    crng = __import__("random").Random(f"C08-clusters-search:{ctx.seed}")
    cases = [with_cluster(c, crng) for c in cases]
    evaluate(ctx, cases, tie=False)
    if any(f.kind == "oracle" and f.signature not in (SIG_F2, SIG_STATUS_NULL, SIG_F3, SIG_F6) for f in ctx.failures):
        return
    from . import sim_c08
    firsts = []
    for b in broken[:10]:
        rep = b.replay if isinstance(b.replay, dict) else {}
        sc = (rep.get("input") or {}).get("scenario") or rep.get("scenario")
        if sc:
            firsts.append(sc)
    if firsts:
        sim_c08.evaluate(ctx, firsts, tie=False)
    sim_c08.search(ctx)


def replay(ctx: Ctx, data: dict) -> None:
    rep = data.get("replay", data)
    if isinstance(rep, dict) and isinstance(rep.get("case"), dict) and "scenario" in rep["case"]:
        rep = rep["case"]
    if isinstance(rep, dict) and isinstance(rep.get("input"), dict) and "scenario" in rep["input"]:
        rep = rep["input"]
    if isinstance(rep, dict) and ("scenario" in rep or rep.get("kind") == "closed-loop"):
        from . import sim_c08 as c08_closed
        c08_closed.replay(ctx, rep)
        return
    case = rep.get("case") or (rep.get("input") or {}).get("case") or rep
    evaluate(ctx, [case], tie=True)
