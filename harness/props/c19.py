"""C19 — watch coverage and continuity under reconnects, 410s, pauses and cluster changes.

Theorems: lean/Kopf/Props/C19.lean over lean/Kopf/Model/C19_Watch.lean (one watch-stream against a
change-log server, all adversary scripts) and lean/Kopf/Model/C19_Ensemble.lean (`adjust_tasks` over all
insight histories).

Ties (harness/props/sim_c19.py runs the real code):
  (S) the real `watching.infinite_watch` against the fake API under seeded fault scripts; every observation
      (request, response, stream line, stream end, backoff end, pause waiters) is turned into the model's
      act, the model is run on the act list and must produce, act by act, the same requests (list / watch
      since v), the same yielded events (listing items, LISTED, events, bookmarks) and the same raise.
  (A) the real `orchestration.adjust_tasks` (stub `queueing.watcher`) over insight histories: after every
      step the keys of `ensemble.watcher_tasks` and which tasks are new vs kept equal the model's.
  plus whole-operator runs with namespaces/CRDs added and removed at runtime (oracle only).
The Python oracle below is written from the property statement over the observations; it never looks at Lean.
"""
from __future__ import annotations

import json
import os
import random
import subprocess
import sys
from concurrent.futures import ProcessPoolExecutor
from concurrent.futures.process import BrokenProcessPool
from typing import Any

from .. import leanio
from ..core import Ctx, load_corpus

ID = "C19"
LEVEL = "proof"
STRENGTH = "partial"   # several clauses hold only under named guards (open findings F3, F5, F6, F7, F8), see LEVEL_TEXT
ENGINES = ["lean-model", "kopfsim", "pyextract"]
TIE = ("S: real infinite_watch vs the Lean world machine, act by act, on seeded fault scripts; D: what the real namespace observer "
       "was fed (listing, listed items, events) and insights.namespaces after each item vs the Lean `evView`; A': the real orchestrator's "
       "label trace (revise/acquire/termDone/spawnAll/die, from hooks on insights.revised.notify_all, terminate_redundancies, adjust_tasks, "
       "task done-callbacks) replayed by the Lean LTS: every label enabled, same keys after each pass, and when the run has come to rest (the last "
       "revision lies well before its end, no pass cut off) the model sits in wait() with no wake-up owed (C19.orchEnd: every revision "
       "was followed by a pass); "
       "A: real adjust_tasks vs the Lean ensemble on insight histories; T: AST check that orchestrator() awaits adjust_tasks "
       "inside `async with insights.revised` (re-proved equal to the model's locked variant) and that the operator's pause toggles are "
       "handed over orchestrator → Ensemble → queueing.watcher → infinite_watch (Tie.pause_wired), and that revise_resources builds "
       "patched_selectors from the spawning and changing registries and hands it to _disable_unsuitable_resources (Tie.patch_kinds_eq); "
       "D-crd: every item handed to the real CRD observer's processor in the operator runs (type, name, generation, group) with the real "
       "scanning.scan_resources result made for it, and insights.watched_resources after it, vs the Lean fold `Disc.step` (runs whose handlers "
       "select by (group, version, plural) with full verbs; an event for which the processor made no scan has no counterpart: mismatch); "
       "D': every item fed to the real revise_namespaces path in the operator runs (with its Terminating reading and an independent "
       "matcher's verdict on the name) vs the Lean `reviseNs`; D'': the real revise_namespaces called directly on generated listings and "
       "event sequences (all body shapes, DELETED events with conditions, pre-filled insights) vs `reviseAll`, and the real "
       "revise_resources called directly over a real registry (handlers of all 8 kinds through kopf's decorators; selectors by "
       "(group, version, plural) / bare name / category / EVERYTHING; verbs varied) with _disable_unsuitable_resources wrapped: what it "
       "was handed and what it left vs the Lean `servedOf patchKinds` (the real Selector.check verdicts are fed: `check` is not modelled); "
       "whole-operator runs, incl. "
       "rapid namespace/CRD changes during a suspended pass, the operator paused and resumed, Terminating namespaces, other handler kinds, "
       "verbs, restricted observation, checked by the oracle")
LEVEL_TEXT = (
    "Lean theorems for ALL adversary scripts (changes, deliveries, bookmarks, EOF/connection/timeouts, in-stream and HTTP 410, "
    "escalated request failures and re-sent attempts, unknown ERROR, garbage, compaction, pause/notice/resume/unblock timing) over a "
    "model of infinite_watch∘streaming_block∘continuous_watch∘watch_objs against a change-log server: "
    "consumer_view_is_server_state (what the consumer was handed = the server's state at `since`, always), no_skip_inv, no_skip "
    "(at quiescence: the current state of every object), listing_yields_live, deliver_in_order, resume_point, relist_on_410 (both "
    "forms, run-level), respond_never_fails, unknown_error_raises, failed_is_final, fresh_list_on_resume, quiescence_reachable "
    "(possibility under a cooperative environment; no fairness/liveness is proved), paused_silent (from the noticed pause on the "
    "record of observations does not change at all: no request, no re-sent attempt, no item, no event; C19-F2 fixed by d8da165/64c8f5e); "
    "LIMIT with witness: deleted_in_relist_gap_witness "
    "(open C19-F5). Cluster→insights (namespaces; observation.py, modelled as a consumer of the same watch machine that ignores "
    "listed items): PARTIAL insights_follow_cluster_partial (guard AllDelivered: every change since the observer's own listing went "
    "through the stream as an event; listed_namespace_ignored_witness = open C19-F8); the out-of-order application of events of two "
    "incarnations of one namespace (open C19-F7) and the CRD half of the insights are covered by the oracle only. revise_namespaces with Terminating "
    "namespaces (deletionTimestamp + status.conditions), for ALL item sequences from ANY earlier contents of the insights: served_iff_last_word "
    "(a matching namespace is served iff the last item about it — not counting DELETED events that still carry a True condition, which the "
    "code only logs — says that it exists: the served set is a function of what exists, not of the order in which it was seen), "
    "existing_namespace_served, served_independent_of_history, unmatched_never_added, terminating_namespace_stays_served, "
    "namespace_gone_unserved; old_revise_unserved_at_first_sight_regression = the loop before kopf 40faad4 (C19-F9, fixed). Which of the "
    "selected resources are served (_disable_unsuitable_resources over Selector.select with its core-group priority, split per handler kind), "
    "for ALL sets of resources and handlers: served_resources_iff (exact), readonly_event_only_served (a read-only resource whose accepting "
    "handlers are on.event/index only is served whatever the other resources and handlers are), patchable_served, unsuitable_not_served; "
    "PARTIAL served_independent_of_other_resources_partial (guard: no core-group resource is watchable but not patchable — true of every "
    "Kubernetes; core_priority_residue_witness: the guard is needed, an observation about Selector.select, not reachable on a real cluster); "
    "old_disable_depends_on_others_regression = the function before kopf bde2793 (C19-F10, fixed). The operator's pause reaches every resource watch-stream: wired_stream_is_the_stream "
    "(+ Tie.pause_wired: the three hand-overs of operator_paused, read off the AST), unwired_stream_lists_while_paused_witness. For ALL histories of insight revisions and watcher deaths: adjust_keys, watchers_nodup, kept_tasks_kept, "
    "served_pairs_have_live_watcher; PARTIAL: exactly_one_watch_partial (guards: fixed mode — cluster-wide incl. the empty start-up "
    "revisions, or namespaced —, stable scope, and in namespaced mode a namespace served or no cluster-scoped resource; "
    "exactly_one_watch_lingering_witness = open C19-F3). For ALL interleavings of observer revisions, task deaths and orchestrator "
    "segments around insights.revised: pass_progress (enabledness), no_lost_wakeup, exactly_one_watch_async_partial, "
    "served_pairs_live_async_partial (guard: no death since the last pass; death_while_idle_witness = open C19-F6), "
    "unlocked_pass_loses_wakeup_witness; any_revision_heals (FULL: from every reachable waiting state, whatever watchers have exited "
    "since the last pass, EVERY revision of the insights — in particular one that leaves them as they were — is followed by a pass "
    "after which every served pair has a running watcher: the bound of C19-F6, 'until the next revision'), skip_noop_revisions_witness "
    "(the variant Model/C19_OrchSkip, an orchestrator that skips the revisions which do not change its snapshot of the insights, "
    "never heals, for any number of such revisions: the unconditional pass is load-bearing; seeded change C19f). Cluster→insights for "
    "resource kinds (observation.process_discovered_resource_event, Model/C19_Discovery: every event of a CRD, whatever its type, "
    "generation, spec or status, re-scans the API group of that CRD), for ALL item histories from ANY earlier insights: "
    "rescan_follows_discovery (FULL: the served resources of a group are what the discovery showed at the last event of a CRD of that "
    "group), appeared_kind_served, vanished_kind_unserved, other_groups_untouched; skip_known_generation_witness (the variant that drops "
    "MODIFIED events of a known generation never serves a kind that becomes discoverable when its CRD is established by a status-only "
    "update — stored at runtime or before the start —, for any number of further status-only updates; seeded change C19h); which "
    "resources the selectors pick of a scan, and that the discovery changes only together with a CRD event (the API server's contract), "
    "are inputs of this model. The models are hand-written and tied to the code by correspondence runs; the pass-under-lock "
    "shape of orchestrator() is re-extracted from the AST on every run.")
THEOREMS = [("Kopf.Props.C19", "Kopf.C19." + n) for n in [
    # one watch-stream, all adversary scripts
    "consumer_view_is_server_state", "no_skip_inv", "no_skip", "listing_yields_live", "deleted_in_relist_gap_witness",
    "deliver_in_order", "resume_point", "relist_on_410", "respond_never_fails", "unknown_error_raises", "failed_is_final",
    "paused_silent", "pause_noticed_is_quiet",
    "fresh_list_on_resume", "quiescence_reachable",
    # cluster → insights (namespaces)
    "insights_follow_cluster_partial", "listed_namespace_ignored_witness",
    # revise_namespaces: Terminating namespaces
    "served_iff_last_word", "existing_namespace_served", "served_independent_of_history", "unmatched_never_added",
    "terminating_namespace_stays_served", "namespace_gone_unserved", "old_revise_unserved_at_first_sight_regression",
    # _disable_unsuitable_resources: which of the selected resources are served
    "served_resources_iff", "readonly_event_only_served", "patchable_served", "unsuitable_not_served",
    "served_independent_of_other_resources_partial", "core_priority_residue_witness", "old_disable_depends_on_others_regression",
    # the operator's pause reaches every resource watch-stream
    "wired_stream_is_the_stream", "unwired_stream_lists_while_paused_witness",
    # adjust_tasks over histories of revisions and task deaths
    "adjust_keys", "watchers_nodup", "kept_tasks_kept", "served_pairs_have_live_watcher",
    "exactly_one_watch_partial", "exactly_one_watch_lingering_witness",
    # the orchestrator around insights.revised, all interleavings
    "pass_progress", "no_lost_wakeup", "exactly_one_watch_async_partial", "served_pairs_live_async_partial",
    "death_while_idle_witness", "unlocked_pass_loses_wakeup_witness",
    # after a watcher has exited on its own: every revision — also one that changes nothing — sets off a pass that replaces it
    "any_revision_heals", "skip_noop_revisions_witness",
    # cluster → insights (resource kinds): every event of a CRD re-scans its API group
    "rescan_follows_discovery", "appeared_kind_served", "vanished_kind_unserved", "other_groups_untouched",
    "skip_known_generation_witness"]]
TIE_THEOREMS = [("Kopf.Tie.C19", "Kopf.C19.Tie.pass_under_lock"), ("Kopf.Tie.C19", "Kopf.C19.Tie.pause_wired"),
                ("Kopf.Tie.C19", "Kopf.C19.Tie.patch_kinds_eq")]
RULE = ("stream scripts: first resourceVersion just below 10/100/1000 in 35 % of the scripts (the versions change their digit count "
        "after a few events), 0-2 pre-existing objects, cluster-wide or namespaced watch, 3-10 moments at dyadic times, each a "
        "cluster of 1-3 ops in random order from {create/edit/delete/other-resource write, break eof/conn/410/error/garbage, "
        "bookmark, unknown-type line, compact, HTTP-410 mode, request fault (429+Retry-After/500/403/404/conn/timeout × count; each "
        "re-sent attempt is a `retry` act of the model) on list or watch, pause/resume}, isolated pause/resume moments, server/client/inactivity timeouts small enough to fire; "
        "histories: 2-7 insight revisions (30 % followed by running watchers exiting on their own) over 3 resources (2 namespaced, 1 cluster-scoped) × 4 namespaces, cluster-wide or "
        "namespaced mode; operator runs: namespace/CRD churn, rapid successions during a suspended pass, object deletions, stream "
        "breaks, and 'meta' runs that break/compact/410 the observers' own namespaces/CRD watch-streams with namespaces/CRDs created or "
        "deleted inside the re-list gap and between the two start-up listings, and 'crdedit' runs that modify a CRD in place (version "
        "added/removed, preferred version flipped, categories/short names changed) under handlers selecting by bare name, category and "
        "short name; 'establish' runs (kinds appear in the stages of a real API server: CRD stored = ADDED, not served, not discoverable → names "
        "accepted = status-only MODIFIED → established = status-only MODIFIED with the generation unchanged, from which instant the kind is "
        "served and discoverable; stages 0 … 2.5 s apart, also between the round-trips of the re-scan set off by ADDED, also behind lagging "
        "CRD events; CRDs stored but not established when the operator starts; kinds that go and come back in stages; CRDs touched afterwards "
        "in status / metadata / spec; handlers registered before the kinds exist); 'heal' runs (the CRD touches there are in the spec, the "
        "status or the metadata; a watcher exits on HTTP 404 — a one-off 404 on its reconnect, or its CRD deleted and re-created within the lag "
        "of the CRD events (meta_lag 0.5-1 s) / two round-trips later without any lag / slower than the lag / behind a busy orchestrator — and "
        "then 0-3 namespace/CRD events follow, most of which revise the insights WITHOUT changing them: the victim's CRD or a neighbour's "
        "touched in place, a CRD nobody serves added/removed, a label on a namespace, a namespace outside the patterns; then the victim's "
        "objects change); 'pause' runs (the whole operator paused and resumed while objects / namespaces / CRDs change, checkpoints inside the pause), 'nsterm' "
        "runs (namespaces Terminating with mixed conditions, then finished; some Terminating at start-up), 'restricted' runs (403 on the namespace listing or "
        "watch, scanning disabled; exact names among the patterns), 'kinds' runs (daemons, timers, indices, create/update/delete/resume handlers, alone or "
        "beside on.event; verbs without patch / watch / list); pure cases: revise_namespaces over a listing of 0-7 namespaces (bodies live / marked without "
        "conditions / Terminating with mixed conditions / Terminating with all conditions False / conditions without a mark) and 0-9 events, 15 % "
        "from pre-filled insights, 12 % with DELETED events that still carry a True condition (off contract: tie only); revise_resources over 1-6 of "
        "10 resources (two versions of one CRD, same plural in the core and in another group, events, a non-watchable core resource; verbs full / "
        "read-only / everything but patch / no watch / no list / get only / patch without watch) and 1-5 handlers of 8 kinds with selectors by (group, version, plural), "
        "bare name (plural / kind / singular / short name), category, EVERYTHING; 8 % with a read-only core resource (off contract: tie only); "
        "namespace patterns drawn from 10 sets (globs, lists, negations, re-inclusion); a case is distinct by its abstracted (act, outputs) sequence and non-trivial when a fault, a pause "
        "or a removal occurs")
TRUSTED = ["harness/sim fake API (list/watch/replay/410 semantics, fault injection) and virtual-time loop",
           "harness/props/sim_c19.py observation points (api.request wrapper, watching.asyncio proxy, FakeContent.iter_chunked wrapper, ToggleSet subclass)",
           "the server half of the Lean world (watch since v = every stored version after v in order, or 410 below the horizon) is the Kubernetes API contract; it is exercised against the fake API by the same tie"]
ASSUMPTIONS = ["resource versions are modelled as naturals (Kubernetes: opaque strings; kopf never compares them, the fake issues integers); "
               "every listing carries a resourceVersion (fetching.py tolerates its absence: the watch would then start 'now' — not modelled)",
               "the API contract is the adversary's limit: a watch since v sends every stored version above v in order or 410 below the horizon; "
               "bookmarks conform (since ≤ b ≤ current, nothing in scope in between) — a non-conforming bookmark is ignored by the model, the code would take it",
               "one call of api.request is one request of the model; attempts re-sent by its retry loop are the `retry` act (observed at the fake API); "
               "how many there are and after which delays is C12's subject",
               "between the pause toggle and the moment the pause-waiter task has run (`notice`) requests may still go out (no virtual duration)",
               "a resource keeps its scope (namespaced/cluster) over a history; operator mode (cluster-wide vs namespaced) is fixed per run",
               "peering absent (standalone or peering CRD not in the backbone): the whole operator is paused through an extra toggle in its own "
               "operator_paused ToggleSet (captured at orchestrator(); the documented 'pause button'), not through peering (C13's subject); the pause of one "
               "stream at every position is exercised on infinite_watch directly (tie S); the meta-watchers (namespaces/CRDs) run with operator_paused=None "
               "and do list and watch while paused, by design",
               "the API server serves and shows a kind in its discovery documents from the instant its CRD's Established condition is stored "
               "(one status-only MODIFIED event, generation unchanged) until the CRD object is removed: what a group serves changes only "
               "together with an event of one of its CRDs; a discovery that lags behind the CRD's own events is not generated",
               "the cluster→insights map is modelled for namespaces (Model/C19_Insights: listed items ignored, events applied; reviseNs: the "
               "Terminating reading of a body, the patterns' verdict as an input) and tied by the observer-feed comparisons and the direct calls; of the "
               "CRD/resource half only the last step is modelled (Model/C19_Resources: _disable_unsuitable_resources over Selector.select, verbs per "
               "handler kind: daemons/timers/changing handlers need `patch`, on.event/index do not; Selector.check is an input); namespace pattern "
               "matching (globs, comma lists, negations, re-inclusion; an independent matcher in the oracle), the rest of revise_resources "
               "(_update_resources per API group, API-group re-scans, ambiguity filter), the restricted modes (HTTP 403 on the namespace "
               "listing / watch, settings.scanning.disabled) and the cross-uid ordering of namespace events (C19-F7) are unmodelled: oracle only",
               "a Terminating namespace follows the Kubernetes namespace controller: deletionTimestamp + five conditions (content / finalizers remaining = "
               "True while blocked), all False before the object is removed; a DELETED event whose last body still carries a True condition (the code "
               "would keep serving that namespace: `deleted and blockers`, log only) is outside this contract: generated in the direct calls of "
               "revise_namespaces for the tie (the model has it: `NsEv.mute`, and served_iff_last_word says exactly what it does), skipped by the oracle",
               "no core-group (v1) resource can be listed and watched but not patched (true of every Kubernetes core API): with one, Selector.select's "
               "core priority leaks into the patch check (core_priority_residue_witness; corpus/C19/pure.json case -614): generated for the tie, skipped by the oracle",
               "HTTP chunk framing: the fake sends exactly one complete JSON line per chunk (api.iter_jsonlines' re-assembly of split / merged lines is "
               "exercised by kopf's own tests/apis/test_iterjsonlines.py only)",
               "an ERROR event without `code` raises KeyError (not WatchingError), HTTP 410 on a LIST is swallowed like an escalated 429: both generated and "
               "tied; unknown in-stream ERROR events carry the codes 400/401/403/404/409/411/429/500/502/503/504/0 (corpus/C19/error_codes.json: one script each); an event without metadata.resourceVersion keeps the old `since` in the code: not generated",
               "orchestrator LTS: the orchestrator reaches its first wait() before the first revision (observers need API round-trips first); "
               "a pass is atomic w.r.t. the ensemble because aiotasks.stop() has no timeout; a watcher ending with a non-404 error cancels the "
               "orchestrator and stops the operator (kopf 9ef1bcb) — that edge is C20's subject and not in the C19 models",
               "no liveness/fairness theorem: all statements are safety, at-quiescence, or possibility under a cooperative environment"]

# C19-F1 was repaired in kopf e006454; the signature stays so that a regression is reported as a VIOLATION
def extract(ctx: Ctx) -> None:
    """AST check of `orchestration.orchestrator`: where is the `adjust_tasks` pass relative to the lock of
    `insights.revised`? → Kopf/Extracted/C19.lean (`lockedPass`), proved `= true` in Kopf/Tie/C19.lean."""
    import ast
    from .. import pyextract
    from ..core import ExtractError
    tree = pyextract.parse_file(ctx.repo / "kopf/_core/reactor/orchestration.py")
    fn = pyextract.find_def(tree, "orchestrator")

    def is_await_of(node: ast.AST, text: str) -> bool:
        return isinstance(node, ast.Await) and isinstance(node.value, ast.Call) and pyextract.norm(node.value.func) == text

    passes = [n for n in ast.walk(fn) if is_await_of(n, "adjust_tasks")]
    waits = [n for n in ast.walk(fn) if is_await_of(n, "insights.revised.wait")]
    withs = [n for n in ast.walk(fn) if isinstance(n, ast.AsyncWith)
             and any(pyextract.norm(i.context_expr) == "insights.revised" for i in n.items)]
    if len(passes) != 1 or len(waits) != 1 or len(withs) != 1:
        raise ExtractError(f"orchestrator(): expected one `async with insights.revised`, one `await insights.revised.wait()` and "
                           f"one `await adjust_tasks(...)`; found {len(withs)}, {len(waits)}, {len(passes)}")
    block = withs[0]
    inside = lambda n: any(n is d for st in block.body for d in ast.walk(st))  # noqa: E731
    if not inside(waits[0]):
        raise ExtractError("orchestrator(): `insights.revised.wait()` is awaited outside `async with insights.revised`")
    loops = [n for n in ast.walk(fn) if isinstance(n, ast.While) and any(waits[0] is d for d in ast.walk(n))]
    if not loops or not any(passes[0] is d for d in ast.walk(loops[-1])):
        raise ExtractError("orchestrator(): `adjust_tasks` is not in the loop that waits on `insights.revised`")
    if passes[0].lineno <= waits[0].lineno:
        raise ExtractError("orchestrator(): `adjust_tasks` does not follow `insights.revised.wait()`")
    locked = inside(passes[0])

    # the hand-overs of the operator's pause toggles on their way to a watch-stream (Model/C19_Wiring.lean)
    def handed_over(scope: ast.AST, callee: str, kw: str, value: str, where: str) -> bool:
        calls = [n for n in ast.walk(scope) if isinstance(n, ast.Call) and pyextract.norm(n.func) == callee]
        if len(calls) != 1:
            raise ExtractError(f"{where}: expected exactly one call of `{callee}(...)`, found {len(calls)}")
        if any(k.arg is None for k in calls[0].keywords):
            raise ExtractError(f"{where}: `{callee}(**…)`: the keyword arguments cannot be read off the AST")
        return any(k.arg == kw and pyextract.norm(k.value) == value for k in calls[0].keywords)

    spawn = pyextract.find_def(tree, "spawn_missing_watchers")
    qtree = pyextract.parse_file(ctx.repo / "kopf/_core/reactor/queueing.py")
    qwatcher = pyextract.find_def(qtree, "watcher")
    w1 = handed_over(fn, "Ensemble", "operator_paused", "operator_paused", "orchestrator()")
    w2 = handed_over(spawn, "queueing.watcher", "operator_paused", "ensemble.operator_paused", "spawn_missing_watchers()")
    w3 = handed_over(qwatcher, "watching.infinite_watch", "operator_paused", "operator_paused", "queueing.watcher()")
    # which registries make up `patched_selectors`, and that it is what `_disable_unsuitable_resources` gets (Model/C19_Resources.lean)
    otree = pyextract.parse_file(ctx.repo / "kopf/_core/reactor/observation.py")
    rr = pyextract.find_def(otree, "revise_resources")
    assigns = [n for n in ast.walk(rr) if isinstance(n, ast.Assign) and len(n.targets) == 1
               and isinstance(n.targets[0], ast.Name) and n.targets[0].id == "patched_selectors"]
    if len(assigns) != 1:
        raise ExtractError(f"revise_resources(): expected one assignment of `patched_selectors`, found {len(assigns)}")

    def union_terms(node: ast.AST) -> list[str]:
        if isinstance(node, ast.BinOp) and isinstance(node.op, ast.BitOr):
            return union_terms(node.left) + union_terms(node.right)
        return [pyextract.norm(node)]
    terms = union_terms(assigns[0].value)
    known_terms = {f"registry._{k}.get_all_selectors()": k for k in ("indexing", "watching", "spawning", "changing")}
    if not terms or any(t not in known_terms for t in terms):
        raise ExtractError(f"revise_resources(): `patched_selectors` is not a union of registry._<kind>.get_all_selectors(): {terms}")
    pk = {known_terms[t] for t in terms}
    calls = [n for n in ast.walk(rr) if isinstance(n, ast.Call) and pyextract.norm(n.func) == "_disable_unsuitable_resources"]
    if len(calls) != 1 or calls[0].args or any(k.arg is None for k in calls[0].keywords):
        raise ExtractError("revise_resources(): expected exactly one keyword-only call of `_disable_unsuitable_resources(...)`")
    kws = {k.arg: pyextract.norm(k.value) for k in calls[0].keywords}
    gets_patched = kws.get("selectors") == "patched_selectors" and kws.get("resources") == "insights.watched_resources"
    b = lambda x: "true" if x else "false"  # noqa: E731
    out = pyextract.HEADER.format(src="kopf/_core/reactor/orchestration.py, queueing.py, observation.py")
    out += "namespace Kopf.C19.Extracted\n\n"
    out += "/-- `await adjust_tasks(...)` sits inside the `async with insights.revised` block of `orchestrator()` -/\n"
    out += f"def lockedPass : Bool := {b(locked)}\n\n"
    out += "/-- `orchestrator()` builds its `Ensemble(operator_paused=operator_paused)` -/\n"
    out += f"def ensembleGetsToggles : Bool := {b(w1)}\n\n"
    out += "/-- `spawn_missing_watchers()` calls `queueing.watcher(operator_paused=ensemble.operator_paused)` -/\n"
    out += f"def watcherGetsToggles : Bool := {b(w2)}\n\n"
    out += "/-- `queueing.watcher()` calls `watching.infinite_watch(operator_paused=operator_paused)` (kopf/_core/reactor/queueing.py) -/\n"
    out += f"def streamGetsToggles : Bool := {b(w3)}\n\n"
    out += "/-- `revise_resources()`: `patched_selectors` is the union of these registries' selectors (kopf/_core/reactor/observation.py) -/\n"
    for k in ("indexing", "watching", "spawning", "changing"):
        out += f"def patched{k.capitalize()} : Bool := {b(k in pk)}\n"
    out += "\n/-- `revise_resources()` calls `_disable_unsuitable_resources(resources=insights.watched_resources, selectors=patched_selectors)` -/\n"
    out += f"def unsuitableGetsPatched : Bool := {b(gets_patched)}\n\nend Kopf.C19.Extracted\n"
    leanio.write_generated("Kopf/Extracted/C19.lean", out)


F1_SIG = {"site": "watching.continuous_watch", "shape": "HTTP 410 on the watch request is not treated as too-old: no re-list"}
# C19-F2 is fixed: watch half in kopf d8da165 (api.stream's stopper callback), list half in 64c8f5e (listing raced with the
# pause-waiter); the signature stays so that a regression is reported as a VIOLATION
F2_SIG = {"site": "fetching.list_objs", "shape": "retry attempts of a list request begun before the pause are re-sent while paused"}
F3_SIG = {"site": "orchestration.terminate_redundancies", "shape": "cluster-scoped watcher survives the removal of the last served namespace"}

# C19-F4 was repaired in kopf 9ef1bcb; the signature stays so that a regression is reported as a VIOLATION
F5_SIG = {"site": "watching.continuous_watch",
          "shape": "object deleted inside a re-list gap (410 / pause / backoff): DELETED is never yielded, the fresh listing just omits it"}
F6_SIG = {"site": "orchestration.orchestrator.exception_handler",
          "shape": "watcher exits on HTTP 404 while the orchestrator is idle: nobody is notified, the served pair stays unwatched until the next revision"}
F7_SIG = {"site": "observation.process_discovered_namespace_event",
          "shape": "namespace deleted and re-created under the same name: the events of the two incarnations (per-uid workers) are applied out of order, the existing namespace ends up unserved"}
F8_SIG = {"site": "observation.process_discovered_namespace_event/process_discovered_resource_event",
          "shape": "namespace or CRD created/deleted while the meta-watch is down (re-list gap, start-up double listing): the listed items are ignored, the change never reaches the insights"}
F9_SIG = {"site": "observation.revise_namespaces",
          "shape": "namespace already Terminating with blockers when first seen (start-up listing / ADDED): never added to the insights, its content is never served"}
F10_SIG = {"site": "observation._disable_unsuitable_resources",
           "shape": "read-only resource served by on.event/index handlers only is dropped because ANOTHER non-patchable resource has a patching handler"}
F4_SIG = {"site": "orchestration.spawn_missing_watchers",
          "shape": "dead watcher task (ended with an exception) keeps its key: the served pair is never watched again"}
# not a finding: the clause that bounds C19-F6's excuse from the cluster's side ("… until the next revision")
UNHEALED_SIG = {"site": "orchestration.orchestrator",
                "shape": "watcher that exited on HTTP 404 is not replaced although namespace/CRD events (each one a revision of the insights) followed"}

# first versions just below a power of ten (two namespaces exist from the start: 6 → the first objects get 9, 10, 11, …)
RV_STARTS = [5, 6, 7, 94, 95, 96, 97, 994, 996, 997]

# codes of unknown in-stream ERROR events (everything but 410): each must raise out of the stream
ERROR_CODES = [400, 401, 403, 404, 409, 411, 429, 500, 500, 502, 503, 504, 0]

CLIENT_ACTS = {"wake", "notice", "unblock", "respond", "failReq", "retry", "deliver", "bookmark", "drop", "err410",
               "errUnknown", "unknownType", "garbage"}


# =============================================================================================
# Stream scripts
# =============================================================================================
def gen_script(rng: random.Random, seed: int) -> dict:
    ns = None if rng.random() < 0.7 else "ns"
    st = {
        "server_timeout": rng.choice([512.0, 512.0, 3.0, 5.0]),
        "client_timeout": rng.choice([1024.0, 1024.0, 4.0, 7.0]),
        "inactivity_timeout": rng.choice([2048.0, 2048.0, 2.0, 6.0]),
        "backoffs": rng.choice([[0.5, 1.0], [0.5, 1.0], [0.25], []]),
    }
    ops: list[list] = []
    names = ["a", "b", "c"]
    exists: dict[tuple, bool] = {}

    def change_op() -> list:
        r = rng.random()
        o_ns = "ns" if (ns is None or rng.random() < 0.75) else "other"
        nm = rng.choice(names)
        if r < 0.15:
            return ["other"]
        if not exists.get((nm, o_ns)):
            exists[(nm, o_ns)] = True
            return ["create", nm, o_ns]
        if r < 0.3:
            exists[(nm, o_ns)] = False
            return ["delete", nm, o_ns]
        return ["edit", nm, o_ns]

    for _ in range(rng.choice([0, 1, 1, 2])):
        ops.append([-1.0] + change_op())
    if rng.random() < 0.05:
        ops.append([-0.5, "pause"])
    paused = any(o[1] == "pause" for o in ops)
    http = False
    killers = rng.random() < 0.12
    use_http410 = rng.random() < 0.2
    t = 0.0
    for _m in range(rng.choice([3, 4, 5, 6, 7, 8, 10])):
        t += rng.choice([1 / 64, 1 / 8, 0.5, 1.0, 1.0, 2.5, 4.0, 9.0])
        r = rng.random()
        if r < 0.12:
            ops.append([t, "resume" if paused else "pause"])
            paused = not paused
            continue
        cluster_ops: list[list] = []
        for _k in range(rng.choice([1, 1, 2, 2, 3])):
            q = rng.random()
            if q < 0.03:
                # a pause / resume in the SAME instant as changes, breaks, faults (before or after them)
                cluster_ops.append(["resume" if paused else "pause"])
                paused = not paused
            elif q < 0.40:
                cluster_ops.append(change_op())
            elif q < 0.62:
                how = rng.choice(["eof", "eof", "conn", "conn", "410"])
                if killers and rng.random() < 0.3:
                    how = rng.choice(["error", "error", "garbage", "error_nocode"])
                if how == "error":
                    # an unknown ERROR: any code but 410, incl. the "try again later" ones (429/503/504), codes next to 410, 0
                    cluster_ops.append(["break", how, rng.choice(ERROR_CODES)])
                else:
                    cluster_ops.append(["break", how])
            elif q < 0.70:
                cluster_ops.append(["bookmark"])
            elif q < 0.74:
                cluster_ops.append(["weird"])
            elif q < 0.84:
                cluster_ops.append(["compact"])
            elif q < 0.97:
                kind = rng.choice(["429", "429", "conn", "timeout", "500", "403"] + (["404"] if killers else []))
                target = rng.choice(["list", "watch", "watch"])
                if target == "list" and rng.random() < 0.1:
                    kind = "410"        # HTTP 410 on a listing (no resourceVersion was sent: a confused proxy/server)
                if kind == "timeout" and target == "watch" and st["client_timeout"] > 8:
                    kind = "conn"       # the fake sleeps the whole client timeout: keep the run short
                count = rng.choice([1, 2, 3, 4])
                if kind in ("500", "403") and not killers:
                    # an escalated 5xx/403 kills the stream (outside the property's fault list): keep it below
                    # the number of attempts unless this script is meant to die
                    if len(st["backoffs"]) == 0:
                        kind = rng.choice(["429", "conn"])
                    else:
                        count = min(count, len(st["backoffs"]))
                cluster_ops.append(["fail", target, kind, count,
                                    rng.choice([1, 2, 3])])
            elif use_http410:
                http = not http
                cluster_ops.append(["http410", http])
            else:
                cluster_ops.append(change_op())
        for o in cluster_ops:
            ops.append([t] + o)
    if paused and rng.random() < 0.7:
        t += rng.choice([0.5, 2.0, 6.0])
        ops.append([t, "resume"])
    if rng.random() < 0.5:
        t += rng.choice([0.5, 3.0])
        ops.append([t] + change_op())
    # settle long enough for every scripted request fault to be consumed (timeouts: 8 s per attempt)
    slack = sum(int(o[4]) * 11.0 for o in ops if o[1] == "fail")
    sc = {"seed": seed, "ns": ns, "settings": st, "ops": ops, "end": t + 64.0 + slack}
    if rng.random() < 0.35:
        sc["rv0"] = rng.choice(RV_STARTS)       # the versions cross a power of ten within the first few events
    return sc


def _parse_chunk(txt: str) -> tuple[str, Any]:
    try:
        ev = json.loads(txt)
    except ValueError:
        return "garbage", None
    typ = ev.get("type")
    obj = ev.get("object") or {}
    if typ == "ERROR":
        if obj.get("code") == 410:
            return "err410", ": " in str(obj.get("message", ""))     # True: the server's answer to a too-old `since`
        return "errUnknown", None
    if typ in ("ADDED", "MODIFIED", "DELETED"):
        return "deliver", None
    if typ == "BOOKMARK":
        return "bookmark", int(obj.get("metadata", {}).get("resourceVersion", 0))
    return "unknownType", None


def derive(obs: list) -> dict:
    """Observation list → the model's act list + the outputs the real code produced after each act."""
    keyid: dict[str, int] = {}
    acts: list[list] = []
    outs: list[list] = []
    srv0 = 0
    anomalies: list[str] = []
    last_client = -1
    stream_open = False
    absorb410 = False
    expect_closed = False
    expect_cancel = False
    watch_pending = False
    listing_handover = False
    first_attempt = False
    list_rv = 0

    def kid(name: str) -> int:
        if name not in keyid:
            keyid[name] = len(keyid) + 1
        return keyid[name]

    def add(act: list) -> None:
        nonlocal last_client
        acts.append(act)
        outs.append([])
        if act[0] in CLIENT_ACTS:
            last_client = len(acts) - 1

    def out(o: list) -> None:
        if last_client < 0:
            anomalies.append("output before any client act")
            return
        outs[last_client].append(o)

    for rec in obs:
        k = rec[0]
        if k == "init":
            srv0 = rec[1]
        elif k in ("t", "start"):
            continue
        elif k == "act":
            if rec[1] == "change":
                add(["change", kid(rec[2]) if rec[4] else 0, rec[3], bool(rec[4])])
            elif rec[1] == "compact":
                add(["compact", rec[2]])
            elif rec[1] == "setHttp410":
                add(["setHttp410", rec[2]])
            else:
                add([rec[1]])
        elif k in ("wake", "unblock"):
            add([k])
        elif k == "notice":
            add(["notice"])
            expect_closed = stream_open
            stream_open = False
            expect_cancel = watch_pending      # the pending request (watch: stopper callback; list: race with the waiter) is cancelled
            watch_pending = False
            if listing_handover:
                anomalies.append("the pause was noticed between the listing's answer and its hand-over to the consumer")
        elif k == "req":
            absorb410 = False
            first_attempt = True
            expect_cancel = False
            watch_pending = True               # (any kind of request)
            out(["reqList"] if rec[1] == "list" else ["reqWatch", int(rec[2]) if rec[2] is not None else -1])
        elif k == "http":
            if first_attempt:
                first_attempt = False       # the attempt that belongs to the `req` just logged
            else:
                add(["retry"])              # api.request's retry loop re-sends the request
                out(["retryList"] if rec[1] == "list" else ["retryWatch", int(rec[2]) if rec[2] is not None else -1])
        elif k == "rsp":
            kind, how, extra = rec[1], rec[2], rec[3]
            watch_pending = False
            if expect_cancel:
                expect_cancel = False
                if how != "cancelled":
                    add(["respond"] if how in ("ok", "gone") else ["failReq", how if how in ("conn", "timeout", "tooMany", "fatal") else "timeout"])
                continue        # the model's `notice` has already ended the request (answers after it change nothing)
            if kind == "list" and how == "gone":
                add(["failReq", "tooMany"])     # HTTP 410 on a LIST: swallowed by infinite_watch like an escalated 429
            elif how in ("ok", "gone"):
                add(["respond"])
                if kind == "list" and how == "ok":
                    list_rv = int((extra or {}).get("rv") or 0)
                    listing_handover = True     # the listing task is done; the stream's task takes over a moment later
                if kind == "watch" and how == "ok":
                    if (extra or {}).get("too_old"):
                        absorb410 = True
                    else:
                        stream_open = True
            elif how in ("conn", "timeout", "tooMany", "fatal"):
                add(["failReq", how])
            elif how == "cancelled" and kind == "watch":
                add(["failReq", "timeout"])     # the inactivity timeout hit the request: TimeoutError in watch_objs
            else:
                anomalies.append(f"unexpected request failure {how}")
        elif k == "chunk":
            what, arg = _parse_chunk(rec[1])
            if expect_closed:
                anomalies.append("a line was consumed between the pause notice and the close of the response")
            if what == "err410" and absorb410 and arg:
                absorb410 = False
                continue
            if what == "bookmark":
                add(["bookmark", arg])
            else:
                add([what])
            if what in ("err410", "errUnknown", "garbage"):
                stream_open = False
        elif k == "end":
            how = rec[1]
            if how == "closed":
                if expect_closed:
                    expect_closed = False
                else:
                    anomalies.append("response closed without a pause notice")
                continue
            if absorb410:
                continue
            stream_open = False
            add(["drop", {"eof": "eof", "conn": "conn", "timeout": "clientTimeout", "cancelled": "inactive"}[how]])
        elif k == "yield":
            typ, name, rv = rec[1], rec[2], rec[3]
            if typ == "LISTED":
                listing_handover = False
                out(["listed", list_rv])
            elif typ is None:
                out(["item", kid(name), int(rv)])
            elif typ == "BOOKMARK":
                out(["bookmark", int(rv)])
            else:
                out(["event", typ, kid(name), int(rv)])
        elif k == "exc":
            out(["raised", rec[1]])
        else:
            anomalies.append(f"unknown record {k}")
    return {"srv0": srv0, "acts": acts, "outs": [_canon_outs(o) for o in outs], "anomalies": anomalies, "keys": keyid}


def _canon_outs(os_: list) -> list:
    """Listing items come in the server's order: compare them as a sorted block."""
    res: list = []
    block: list = []
    for o in os_:
        if o[0] == "item":
            block.append(o)
        else:
            res.extend(sorted(block))
            block = []
            res.append(o)
    res.extend(sorted(block))
    return res


def oracle_stream(sc: dict, r: dict) -> list[tuple[str, dict]]:
    """The property, read off the observations of the real run (no model involved)."""
    fails: list[tuple[str, dict]] = []
    ns = sc.get("ns")
    vis_log = [(rv, t, name) for rv, t, name, o_ns in r["log"] if ns is None or o_ns == ns]
    seen: int | None = None
    last_list_rv: int | None = None
    first_list_rv: int | None = None
    delivered: set[tuple[str, int]] = set()
    view: dict[str, int] = {}
    told: dict[str, str | None] = {}      # the last thing the consumer was handed about each object (type; None = listed)
    items: dict[str, int] | None = None
    pending_list_rv: int | None = None
    expect_raise = False
    raised: str | None = None
    tnow = -1.0     # ops before the start of the stream
    pauses: list[list[float | None]] = []      # [start, end|None]
    logical: list[tuple[str, str | None, float]] = []
    await_list_after_resume = False
    outstanding = False        # a request is in flight (possibly in its retry sleeps)
    for rec in r["obs"]:
        k = rec[0]
        if k == "t":
            tnow = rec[1]
        elif k == "act" and rec[1] == "pause":
            pauses.append([tnow, None])
        elif k == "act" and rec[1] == "resume":
            if pauses and pauses[-1][1] is None:
                pauses[-1][1] = tnow
                # a pause of no duration (toggled on and off in one instant, before any waiter ran) was never a pause
                await_list_after_resume = tnow > pauses[-1][0]
        elif k == "req":
            kind, since, t = rec[1], rec[2], rec[3]
            logical.append((kind, since, t))
            outstanding = True
            if expect_raise:
                fails.append(("a request was issued after an unknown ERROR event: the error was skipped",
                              {"site": "watching.continuous_watch", "shape": "unknown ERROR event not raised"}))
            if await_list_after_resume:
                await_list_after_resume = False
                if kind != "list":
                    fails.append((f"first request after resume is a watch since {since}, not a fresh listing",
                                  {"site": "watching.infinite_watch", "shape": "first request after resume is not a list"}))
            if kind == "watch":
                if since is None or seen is None or int(since) != seen:
                    fails.append((f"watch request resourceVersion={since} but the latest version the client had seen is {seen}",
                                  {"site": "watching.continuous_watch", "shape": "watch request resourceVersion != latest version seen"}))
                if since is not None:
                    for rv, _t, name in vis_log:
                        if rv <= int(since) and not ((last_list_rv is not None and rv <= last_list_rv) or (name, rv) in delivered):
                            fails.append((f"watch resumes since {since} but version {rv} of {name} was neither delivered nor listed",
                                          {"site": "watching.continuous_watch", "shape": "watch resumes past an undelivered change"}))
                            break
        elif k == "rsp":
            outstanding = False
            if rec[1] == "list" and rec[2] == "ok":
                pending_list_rv = int((rec[3] or {}).get("rv") or 0)
                items = {}
        elif k == "chunk":
            what, _arg = _parse_chunk(rec[1])
            if what == "errUnknown":
                expect_raise = True
        elif k == "yield":
            typ, name, rv = rec[1], rec[2], rec[3]
            ty = rec[4] if len(rec) > 4 else None
            if ty is not None and pauses and pauses[-1][1] is None and ty > pauses[-1][0]:
                # strictly later than the pause (the pause→notice window has no virtual duration)
                if typ in ("ADDED", "MODIFIED", "DELETED", "BOOKMARK"):
                    fails.append((f"a {typ} event was yielded at t={ty} while paused since t={pauses[-1][0]}",
                                  {"site": "watching.streaming_block", "shape": "watch event yielded while paused"}))
                elif typ is None or typ == "LISTED":
                    fails.append((f"a listing was handed to the consumer at t={ty} while paused since t={pauses[-1][0]}",
                                  {"site": "watching.continuous_watch", "shape": "listing yielded while paused"}))
            if expect_raise:
                fails.append(("an event was yielded after an unknown ERROR event: the error was skipped",
                              {"site": "watching.continuous_watch", "shape": "unknown ERROR event not raised"}))
            if typ is None:
                told[name] = None
                if items is not None:
                    items[name] = int(rv)
            elif typ == "LISTED":
                view = dict(items or {})
                items = None
                seen = last_list_rv = pending_list_rv
                if first_list_rv is None:
                    first_list_rv = pending_list_rv
            elif typ == "BOOKMARK":
                seen = int(rv)
            else:
                told[name] = typ
                if rv is not None:
                    seen = int(rv)
                    delivered.add((name, int(rv)))
                    if typ == "DELETED":
                        view.pop(name, None)
                    else:
                        view[name] = int(rv)
        elif k == "exc":
            raised = rec[1]
    if expect_raise and raised != "unknownError":
        fails.append(("an unknown ERROR event did not raise out of the stream",
                      {"site": "watching.continuous_watch", "shape": "unknown ERROR event not raised"}))
    # -- requests while paused (attempt level, from the fake's request log) ------------------------
    li = 0
    for a in r["requests"]:
        first = False
        if li < len(logical) and (a["kind"], a["since"], a["t"]) == logical[li]:
            first = True
            li += 1
        for p0, p1 in pauses:
            if p0 is not None and a["t"] > p0 and (p1 is None or a["t"] < p1):
                if first:
                    fails.append((f"a {a['kind']} request was issued at t={a['t']} while paused since t={p0}",
                                  {"site": "watching.streaming_block", "shape": "list/watch request issued while paused"}))
                elif a["kind"] == "list":       # fixed in kopf 64c8f5e: a regression is a plain violation (F2 is `fixed`)
                    fails.append((f"retry attempt of a list request re-sent at t={a['t']} while paused since t={p0}", F2_SIG))
                else:
                    fails.append((f"retry attempt of a watch request re-sent at t={a['t']} while paused since t={p0}",
                                  {"site": "api.stream", "shape": "watch request re-sent while paused (stopper did not cancel it)"}))
    # -- the end of the run is quiescent: what the consumer holds must be what the server holds ----
    killers = {"500", "403", "404"}
    injected_fatal = any(o[1] == "fail" and o[3] in killers for o in sc["ops"])
    if raised is not None or r.get("exc"):
        kind = raised or "other"
        if kind == "gone":
            fails.append(("HTTP 410 on the watch request killed the stream: later changes are never delivered", F1_SIG))
        elif kind in ("unknownError", "garbage"):
            pass        # the property wants these raised
        elif kind == "fatal" and injected_fatal:
            pass        # an escalated 5xx/403/404 is outside the property's fault list
        else:
            fails.append((f"the stream died on a recoverable fault: {r.get('exc')}",
                          {"site": "watching.infinite_watch", "shape": "stream died on a recoverable fault", "fault": kind}))
    elif not r["alive"]:
        fails.append(("infinite_watch ended without an exception", {"site": "watching.infinite_watch", "shape": "stream ended"}))
    elif outstanding:
        pass            # the run ended in the middle of a (retried) request: not a quiescent end, nothing to compare
    elif not r["paused_at_end"]:
        final = {name: int(rv) for o_ns, name, rv in r["objects"] if ns is None or o_ns == ns}
        if first_list_rv is None:
            fails.append(("no listing ever completed although the stream is alive and not paused",
                          {"site": "watching.infinite_watch", "shape": "never listed"}))
        else:
            if view != final:
                fails.append((f"at quiescence the consumer's latest versions {view} differ from the server's {final}",
                              {"site": "watching.infinite_watch", "shape": "change lost: final delivered state != server state at quiescence"}))
            for name, typ in sorted(told.items()):
                if typ != "DELETED" and name not in final:
                    fails.append((f"object {name} was handed to the consumer, is gone now, and DELETED was never yielded for it "
                                  "(deleted while the stream was down; the re-listing just does not contain it)", F5_SIG))
                    break
            for rv, _t, name in vis_log:
                if rv > first_list_rv and not ((name, rv) in delivered or (last_list_rv is not None and rv <= last_list_rv)):
                    fails.append((f"version {rv} of {name} was never delivered and no later listing covers it",
                                  {"site": "watching.infinite_watch", "shape": "change lost: neither delivered nor covered by a later listing"}))
                    break
    return fails


def eval_stream(sc: dict) -> dict:
    """Worker-side: run one script on the real code, derive acts, evaluate the oracle."""
    from . import sim_c19
    r = sim_c19.run_stream(sc, wall_limit=240.0)
    if "sim_error" in r:
        return {"sc": sc, "sim_error": r["sim_error"]}
    d = derive(r["obs"])
    fails = oracle_stream(sc, r)
    shape = [[a[0] + (":" + str(a[1]) if a[0] in ("failReq", "drop") else ""), [o[0] for o in os_]]
             for a, os_ in zip(d["acts"], d["outs"]) if a[0] in CLIENT_ACTS]
    hist: dict[str, int] = {}
    for a in d["acts"]:
        tag = a[0] + (":" + str(a[1]) if a[0] in ("failReq", "drop") else "")
        hist[tag] = hist.get(tag, 0) + 1
    nontrivial = any(a[0] in ("drop", "err410", "errUnknown", "garbage", "failReq", "notice", "unknownType", "bookmark")
                     for a in d["acts"])
    res = {"sc": sc, "srv0": d["srv0"], "acts": d["acts"], "outs": d["outs"], "anomalies": d["anomalies"],
           "fails": fails, "shape": shape, "hist": hist, "nontrivial": nontrivial,
           "alive": r["alive"], "exc": r.get("exc"), "paused_at_end": r["paused_at_end"],
           "attempts": len(r["requests"]), "loop_errors": r.get("loop_errors", [])}
    if fails:
        res["obs"] = r["obs"]
        res["requests"] = r["requests"]
    return res


# =============================================================================================
# adjust_tasks histories
# =============================================================================================
RES_UNIVERSE = [{"name": "kopfexamples", "namespaced": True}, {"name": "widgets", "namespaced": True},
                {"name": "clusterthings", "namespaced": False}]
NS_UNIVERSE = ["a", "b", "c", "d"]


def gen_history(rng: random.Random, seed: int) -> dict:
    clusterwide = rng.random() < 0.35
    steps = []
    watched = [r for r in RES_UNIVERSE if rng.random() < 0.6]
    nss = [n for n in NS_UNIVERSE if rng.random() < 0.5]
    for _ in range(rng.choice([2, 3, 4, 5, 7])):
        for r in RES_UNIVERSE:
            if rng.random() < 0.35:
                watched = [x for x in watched if x["name"] != r["name"]] if r in watched else watched + [r]
        for n in NS_UNIVERSE:
            if rng.random() < 0.35:
                nss = [x for x in nss if x != n] if n in nss else nss + [n]
        if rng.random() < 0.12:
            nss = []
        if rng.random() < 0.08:
            watched = []
        rng.shuffle(watched)
        steps.append({"watched": list(watched), "indexed": [r["name"] for r in watched if rng.random() < 0.3],
                      "namespaces": [None] if clusterwide else list(nss)})
        if rng.random() < 0.3:
            # some running watchers exit on their own (HTTP 404 while the CRD is away, …) before the next pass
            cur = sorted(expected_pairs(watched, [None] if clusterwide else nss), key=str)
            dying = [list(k) for k in cur if rng.random() < 0.4]
            if dying:
                steps.append({"die": dying})
    return {"seed": seed, "peering": rng.choice(["standalone", "absent"]), "clusterwide": clusterwide, "steps": steps}


def expected_pairs(watched: list[dict], namespaces: list) -> set:
    return {(r["name"], n if r["namespaced"] else None) for r in watched for n in namespaces}


def oracle_adjust(h: dict, r: dict) -> list[tuple[str, dict]]:
    fails: list[tuple[str, dict]] = []
    prev_expected: set = set()
    killed: set = set()
    rows = iter(r["rows"])
    for i, st in enumerate(h["steps"]):
        if "die" in st:
            killed |= {tuple(k) for k in st["die"]}
            continue
        row = next(rows)
        want = expected_pairs(st["watched"], st["namespaces"])
        got_list = [tuple(k) for k, _new in row["keys"]]
        got = set(got_list)
        alive = {tuple(k) for k in row["alive"]}
        if len(got_list) != len(got):
            fails.append((f"step {i}: two watcher tasks under one key", {"site": "orchestration.adjust_tasks", "shape": "duplicate watcher key"}))
        if got != want:
            extra, missing = got - want, want - got
            scoped = {x["name"] for x in st["watched"] if not x["namespaced"]}
            if not missing and extra and not st["namespaces"] and all(k[1] is None and k[0] in scoped for k in extra):
                fails.append((f"step {i}: no namespace is served but the cluster-scoped watcher(s) {sorted(extra)} stay", F3_SIG))
            else:
                fails.append((f"step {i}: watcher keys {sorted(got, key=str)} != served pairs {sorted(want, key=str)}",
                              {"site": "orchestration.adjust_tasks", "shape": "watcher keys != served pairs"}))
        if alive != got:
            fails.append((f"step {i}: watcher tasks not running: {sorted(got - alive, key=str)}",
                          {"site": "orchestration.adjust_tasks", "shape": "watcher task in the ensemble is not running"}))
        for k, new in row["keys"]:
            if tuple(k) in killed and tuple(k) in prev_expected and tuple(k) in want and not new:
                fails.append((f"step {i}: the watcher of {k} had exited on its own but was not replaced",
                              {"site": "orchestration.adjust_tasks", "shape": "dead watcher task kept"}))
            if tuple(k) in prev_expected and tuple(k) in want and new and tuple(k) not in killed:
                fails.append((f"step {i}: the watch of {k} stayed served but its task was replaced",
                              {"site": "orchestration.adjust_tasks", "shape": "continuing watch restarted"}))
        if row["stopped_prev_running"]:
            fails.append((f"step {i}: tasks dropped from the ensemble still run: {row['stopped_prev_running']}",
                          {"site": "orchestration.terminate_redundancies", "shape": "redundant watcher not stopped"}))
        prev_expected = want & got
        killed = set()
    return fails


def eval_adjust(h: dict) -> dict:
    from . import sim_c19
    r = sim_c19.run_adjust(h)
    if "sim_error" in r:
        return {"h": h, "sim_error": r["sim_error"]}
    req = [st if "die" in st else {"watched": st["watched"], "namespaces": st["namespaces"]} for st in h["steps"]]
    passes = [st for st in h["steps"] if "die" not in st]
    removed = any("die" in st for st in h["steps"]) or \
        any(len(a["watched"]) > len(b["watched"]) or len(a["namespaces"]) > len(b["namespaces"])
            for a, b in zip(passes, passes[1:]))
    return {"h": h, "req": req, "impl": [row["keys"] for row in r["rows"]], "fails": oracle_adjust(h, r),
            "nontrivial": removed, "other_tasks": sum(row["other_tasks"] for row in r["rows"])}


# =============================================================================================
# whole operator
# =============================================================================================
def gen_operator(rng: random.Random, seed: int) -> dict:
    clusterwide = rng.random() < 0.4
    handlers = [p for p in ["kopfexamples", "clusterthings", "widgets"] if rng.random() < 0.7] or ["kopfexamples"]
    init_res = [p for p in ["kopfexamples", "clusterthings", "widgets"] if rng.random() < 0.6]
    init_ns = [n for n in ["team-a", "team-b", "other"] if rng.random() < 0.6]
    tl: list[list] = []
    t = 2.0
    tl.append([t, "check"])
    for _ in range(rng.choice([3, 4, 5, 6])):
        t += 1.0
        q = rng.random()
        if q < 0.3:
            tl.append([t, rng.choice(["add_ns", "del_ns"]), rng.choice(["team-a", "team-b", "team-c", "other"])])
        elif q < 0.6:
            tl.append([t, rng.choice(["add_res", "del_res"]), rng.choice(["kopfexamples", "clusterthings", "widgets"])])
        elif q < 0.66:
            tl.append([t, "delete", rng.choice(["kopfexamples", "widgets", "clusterthings"]),
                       rng.choice(["team-a", "team-b", "other"]), rng.choice(["x", "y"])])
        elif q < 0.85:
            tl.append([t, "create", rng.choice(["kopfexamples", "widgets", "clusterthings"]),
                       rng.choice(["team-a", "team-b", "other"]), rng.choice(["x", "y"])])
        else:
            tl.append([t, "break", rng.choice(["kopfexamples", "widgets", "clusterthings"]), rng.choice(["eof", "conn", "410"])])
        if rng.random() < 0.5:
            tl.append([t + 0.5, "edit", rng.choice(["kopfexamples", "widgets", "clusterthings"]),
                       rng.choice(["team-a", "team-b", "other"]), rng.choice(["x", "y"])])
        t += 2.0
        tl.append([t, "check"])
    sc = {"seed": seed, "clusterwide": clusterwide, "patterns": rng.choice(PATTERN_SETS), "handlers": handlers,
          "initial_resources": init_res, "initial_namespaces": init_ns, "timeline": tl, "end": t + 3.0}
    if rng.random() < 0.4:
        sc["rv0"] = rng.choice([0, 1, 2, 88, 90, 92, 985, 990])   # namespaces + CRDs + objects cross 10 / 100 / 1000
    return sc


def gen_rapid(rng: random.Random, seed: int) -> dict:
    """2-3 namespace/CRD changes 0-0.5 s apart (also in the same instant) while a handler of a namespace that
    is being removed is still in flight: `terminate_redundancies` suspends in `aiotasks.stop()` for up to
    `queueing.exit_timeout`, and the next revisions of the insights arrive during that `adjust_tasks` pass."""
    clusterwide = rng.random() < 0.15
    handlers = ["kopfexamples"] + [p for p in ["widgets", "clusterthings"] if rng.random() < 0.4]
    init_res = ["kopfexamples"] + [p for p in ["widgets", "clusterthings"] if rng.random() < 0.5]
    init_ns = ["team-a"] + [n for n in ["team-b", "team-c", "other"] if rng.random() < 0.5]
    sleep = rng.choice([0.5, 1.0, 1.0, 1.5, 2.5])
    tl: list[list] = [[1.0, "create", "kopfexamples", "team-a", "x"], [3.0, "check"]]
    t = 4.0
    tl.append([t, "edit", "kopfexamples", "team-a", "x"])          # the handler starts and stays in flight
    t += rng.choice([1 / 64, 0.125, 0.25])
    first = ["del_ns", "team-a"] if rng.random() < 0.8 else ["del_res", "kopfexamples"]
    tl.append([t] + first)
    for _ in range(rng.choice([1, 2, 2, 3])):
        t += rng.choice([0.0, 0.0, 1 / 64, 0.125, 0.3125, 0.5])
        q = rng.random()
        if q < 0.6:
            tl.append([t, rng.choice(["add_ns", "del_ns"]), rng.choice(["team-b", "team-c", "team-d", "team-a"])])
        else:
            tl.append([t, rng.choice(["add_res", "del_res"]), rng.choice(["widgets", "clusterthings", "kopfexamples"])])
    t += 9.0
    tl.append([t, "check"])
    return {"seed": seed, "clusterwide": clusterwide, "patterns": ["team-*"], "handlers": handlers, "handler_sleep": sleep,
            "settings": {"exit_timeout": rng.choice([2.0, 2.0, 1.0])},
            "initial_resources": init_res, "initial_namespaces": init_ns, "timeline": tl, "end": t + 2.0, "rapid": True,
            **({"rv0": rng.choice([0, 2, 88, 92, 988])} if rng.random() < 0.3 else {})}


def gen_meta(rng: random.Random, seed: int) -> dict:
    """Disturb the observers' OWN watch-streams (namespaces / customresourcedefinitions): 410, EOF, connection
    errors, compaction; namespaces and CRDs created/deleted inside the re-list gap (the 0.125 s reconnect backoff),
    between the observer's own listing and the stream's first one (t ≈ 3/64 s), and outside any gap."""
    clusterwide = rng.random() < 0.25
    handlers = ["kopfexamples"] + [p for p in ["widgets", "clusterthings"] if rng.random() < 0.5]
    init_res = ["kopfexamples"] + [p for p in ["widgets", "clusterthings"] if rng.random() < 0.4]
    init_ns = ["team-a"] + [n for n in ["team-b", "other"] if rng.random() < 0.5]
    tl: list[list] = []

    def churn(t: float) -> list:
        if rng.random() < 0.6:
            return [t, rng.choice(["add_ns", "add_ns", "del_ns"]), rng.choice(["team-a", "team-b", "team-c", "team-d"])]
        return [t, rng.choice(["add_res", "add_res", "del_res"]), rng.choice(["widgets", "clusterthings"])]

    if rng.random() < 0.3:      # the start-up gap
        tl.append(churn(rng.choice([1 / 32, 13 / 256, 13 / 256, 1 / 16])))
    tl.append([3.0, "check"])
    t = 4.0
    for _ in range(rng.choice([1, 1, 2])):
        meta = rng.choice(["namespaces", "namespaces", "customresourcedefinitions"])
        how = rng.choice(["410", "410", "eof", "conn"])
        if rng.random() < 0.25:
            tl.append([t, "compact", meta])
        tl.append([t, "break", meta, how])
        for _k in range(rng.choice([1, 1, 2])):
            tl.append(churn(t + rng.choice([0.0, 1 / 64, 1 / 16, 3 / 32, 0.5, 1.0])))
        t += 3.0
    tl.append([t, "create", "kopfexamples", rng.choice(["team-a", "team-c", "team-d"]), "z"])
    t += 6.0
    tl.append([t, "check"])
    return {"seed": seed, "clusterwide": clusterwide, "patterns": ["team-*"], "handlers": handlers,
            "initial_resources": init_res, "initial_namespaces": init_ns, "timeline": tl, "end": t + 2.0, "meta": True,
            **({"rv0": rng.choice([0, 2, 88, 92, 988])} if rng.random() < 0.3 else {})}


def gen_crdedit(rng: random.Random, seed: int) -> dict:
    """CRDs modified IN PLACE at runtime — a version added (and the preferred version flipped), the preferred version
    flipped back, a version removed, categories / short names added or removed — under handlers that select by bare
    name, by category and by short name (no group, no version): what is served follows the CURRENT discovery."""
    clusterwide = rng.random() < 0.4
    plural = rng.choice(["kopfexamples", "kopfexamples", "widgets"])
    selectors = []
    if rng.random() < 0.6:
        selectors.append({"by": "name", "value": plural})
    if rng.random() < 0.5:
        selectors.append({"by": "category", "value": "things"})
    if rng.random() < 0.4 or not selectors:
        selectors.append({"by": "shortcut", "value": "thg"})
    tl: list[list] = [[0.5, "set_categories", plural, ["things"] if rng.random() < 0.7 else []],
                      [0.75, "set_shortnames", plural, ["thg"] if rng.random() < 0.7 else []],
                      [1.0, "create", plural, "team-a", "x"], [3.0, "check"]]
    t = 4.0
    has_v2 = False
    for _ in range(rng.choice([1, 2, 2, 3])):
        q = rng.random()
        if q < 0.35 and not has_v2:
            tl.append([t, "add_version", plural, "v2", rng.random() < 0.8])
            has_v2 = True
        elif q < 0.5 and has_v2:
            tl.append([t, "set_preferred", plural, rng.choice(["v1", "v2"])])
        elif q < 0.6 and has_v2:
            tl.append([t, "del_version", plural, "v2"])
            has_v2 = False
        elif q < 0.8:
            tl.append([t, "set_categories", plural, rng.choice([[], ["things"], ["other"]])])
        else:
            tl.append([t, "set_shortnames", plural, rng.choice([[], ["thg"], ["zzz"]])])
        t += rng.choice([0.25, 2.0, 3.0])
        if rng.random() < 0.6:
            tl.append([t + 1.5, "check"])
            t += 2.0
    tl.append([t + 4.0, "check"])
    return {"seed": seed, "crdedit": True, "clusterwide": clusterwide, "patterns": ["team-*"], "handlers": [],
            "selectors": selectors, "initial_resources": [plural], "initial_namespaces": ["team-a", "team-b"],
            "timeline": tl, "end": t + 6.0}


def gen_heal(rng: random.Random, seed: int) -> dict:
    """A watcher exits on its own (HTTP 404) and THEN the cluster goes on living: the class behind C19-F6's '… until the
    next revision'. The exit: a served resource answers 404 once while its stream is re-opened (API hiccup), or its CRD
    is deleted and re-created — within the lag of the CRD events (the observer's re-scan on the late DELETED already
    finds the resource again: the insights never change), or slower than it (they do change, twice). The life after: a
    CRD touched in place (the victim's, a neighbour's in the same API group, one of another group), a CRD nobody
    serves added or removed, a label on a served namespace, a namespace outside the patterns created, a matching one
    created or removed — 1-3 of them, most of which REVISE THE INSIGHTS WITHOUT CHANGING THEM — or nothing at all
    (the residue that stays open as C19-F6). Afterwards the victim's objects change; checkpoints well after."""
    clusterwide = rng.random() < 0.4
    pool = ["kopfexamples", "widgets", "clusterthings"]
    victim = rng.choice(["kopfexamples", "kopfexamples", "widgets", "clusterthings"])
    handlers = sorted({victim} | {p for p in pool if rng.random() < 0.35})
    init_res = sorted(set(handlers) | {p for p in pool if rng.random() < 0.5})
    init_ns = ["team-a"] + [n for n in ["team-b", "other"] if rng.random() < 0.5]
    sc: dict = {"seed": seed, "heal": True, "clusterwide": clusterwide, "patterns": ["team-*"], "handlers": handlers,
                "initial_resources": init_res, "initial_namespaces": init_ns}
    tl: list[list] = [[1.0, "create", victim, "team-a", "x"], [3.0, "check"]]
    t = 4.0
    how = rng.choice(["hiccup", "hiccup", "flap-in-lag", "flap-in-lag", "flap-in-lag", "flap-slow", "flap-busy", "flap-blink"])
    if how == "hiccup":
        tl.append([t, "fail", victim, "404", 1])
        tl.append([t, "break", victim, rng.choice(["410", "eof", "conn"])])
        t += 1.0
    elif how == "flap-busy":
        # the CRD comes back while the orchestrator is busy with a pass (a handler in flight in a namespace that goes):
        # the revisions queue up behind the lock and are seen as one
        other = rng.choice([p for p in pool if p != victim])
        sc.update({"clusterwide": False, "handler_sleep": rng.choice([0.5, 1.0]), "settings": {"exit_timeout": 2.0},
                   "handlers": sorted(set(handlers) | {other}), "initial_resources": sorted(set(init_res) | {other}),
                   "initial_namespaces": sorted(set(init_ns) | {"team-c"})})
        tl[0] = [1.0, "create", other, "team-c", "x"]
        tl.append([t, "edit", other, "team-c", "x"])
        tl.append([t + 0.125, "del_ns", "team-c"])
        tl.append([t + 0.125, "del_res", victim])
        tl.append([t + 0.125 + rng.choice([0.25, 0.3125, 0.5]), "add_res", victim])
        t += 4.0
    elif how == "flap-blink":
        # no lag at all: the CRD is back two round-trips later, after the watcher's reconnect (404) and before the re-scan
        # that the DELETED event sets off has read the API group (three requests)
        tl.append([t, "del_res", victim])
        tl.append([t + rng.choice([1 / 32, 1 / 32, 3 / 64]), "add_res", victim])
        t += 2.0
    else:
        lag = rng.choice([0.5, 0.75, 1.0])
        sc["meta_lag"] = {"customresourcedefinitions": lag, **({"namespaces": rng.choice([0.25, 0.5])} if rng.random() < 0.3 else {})}
        # the stream closes with the CRD; the watcher re-lists after the 0.125 s reconnect back-off and gets the 404
        back = rng.choice([1 / 32, 0.125, 0.1875, 0.25, 0.375]) if how == "flap-in-lag" else lag + rng.choice([0.25, 0.5, 1.0])
        tl.append([t, "del_res", victim])
        tl.append([t + back, "add_res", victim])
        t += back + lag + 1.0
    after = []
    for _ in range(rng.choice([0, 1, 1, 1, 2, 3])):
        q = rng.random()
        same_group = [p for p in pool if p != victim and GVP[p][0] == GVP[victim][0]]
        other_group = [p for p in pool if GVP[p][0] != GVP[victim][0]]
        # a CRD touched in place: in its spec (the generation goes up), in its status or in its metadata only (it does not)
        mode = rng.choice(["spec", "status", "status", "meta"])
        if q < 0.2:
            after.append(["touch_crd", victim, mode])
        elif q < 0.35 and same_group:
            after.append(["touch_crd", rng.choice(same_group), mode])
        elif q < 0.45 and other_group:
            after.append(["touch_crd", rng.choice(other_group), mode])
        elif q < 0.6:
            after.append([rng.choice(["add_res", "del_res"]), rng.choice([p for p in pool if p != victim])])
        elif q < 0.75:
            after.append(["touch_ns", rng.choice(["team-a", "other", "default"])])
        elif q < 0.85:
            after.append(["add_ns", rng.choice(["elsewhere", "other"])])
        else:
            after.append([rng.choice(["add_ns", "add_ns", "del_ns"]), rng.choice(["team-b", "team-c"])])
    for o in after:
        tl.append([t] + o)
        t += rng.choice([0.0, 1 / 64, 0.5, 1.0])
    t += 1.0
    tl.append([t, "create", victim, "team-a", "x"])
    tl.append([t + 0.5, "edit", victim, "team-a", "x"])
    t += 6.0
    tl.append([t, "check"])
    sc.update({"how": how, "timeline": tl, "end": t + 2.0})
    return sc


def gen_establish(rng: random.Random, seed: int) -> dict:
    """Kinds that APPEAR the way they do on a real API server — in stages, each an event on the CRD stream:
    the CRD object is stored (ADDED, generation 1, not served, not in the discovery), the names are accepted (a STATUS-ONLY
    update, same generation), the CRD is established (a STATUS-ONLY update, same generation: from that instant the kind is
    served and discoverable). The stages are 0 (same instant) … 2.5 s apart, also inside the observer's re-scan that the
    ADDED event sets off (three round-trips of 1/64 s), also behind lagging CRD events; some CRDs are stored but not yet
    established when the operator starts (it sees them in its initial listing only); some kinds go away and come back the
    same way; CRDs are touched afterwards in their status / metadata / spec. The operator has handlers for the kinds
    before they exist. Then their objects change; checkpoints well after every stage."""
    clusterwide = rng.random() < 0.5
    pool = ["kopfexamples", "widgets", "clusterthings"]
    late = sorted(rng.sample(pool, rng.choice([1, 1, 2, 3])))
    handlers = sorted(set(late) | {p for p in pool if rng.random() < 0.3})
    init_res = sorted(p for p in pool if p not in late and rng.random() < 0.6)
    pending = sorted(p for p in late if rng.random() < 0.25)
    init_ns = ["team-a"] + [n for n in ["team-b", "other"] if rng.random() < 0.5]
    sc: dict = {"seed": seed, "establish": True, "clusterwide": clusterwide, "patterns": ["team-*"], "handlers": handlers,
                "initial_resources": init_res, "initial_crds": pending, "initial_namespaces": init_ns}
    if rng.random() < 0.25:
        sc["meta_lag"] = {"customresourcedefinitions": rng.choice([0.25, 0.5, 1.0])}
    lag = float((sc.get("meta_lag") or {}).get("customresourcedefinitions", 0.0))
    gaps = [0.0, 1 / 64, 1 / 32, 3 / 64, 1 / 16, 0.125, 0.25, 0.5, 1.0, 2.5]
    tl: list[list] = [[2.0, "check"]]
    t = 3.0

    def appear(p: str, t0: float, stored: bool) -> float:
        """the stages of `p` from t0 on; returns the time at which it is established"""
        te = t0
        if not stored:
            tl.append([t0, "add_crd", p])
            te = t0 + rng.choice(gaps)
        if rng.random() < 0.5:
            tl.append([t0 + (te - t0) * rng.choice([0.0, 0.5, 1.0]), "accept_crd", p])
        tl.append([te, "establish", p])
        return te

    for p in late:
        te = appear(p, t, p in pending)
        t = te + 0.5
        tl.append([te + rng.choice([1 / 64, 0.25, 0.5]) + lag, "create", p, "team-a", "x"])
        if rng.random() < 0.5:
            tl.append([t, "touch_crd", rng.choice(late), rng.choice(["status", "status", "meta", "spec"])])
        if rng.random() < 0.6:
            t += 3.0 + lag
            tl.append([t, "check"])
            t += 1.0
    if rng.random() < 0.4:      # one of them goes away and comes back, in stages again (a new object: generation 1 again)
        p = rng.choice(late)
        tl.append([t, "del_res", p])
        t += rng.choice([1 / 32, 0.125, 0.5, 1.5]) if lag == 0 else lag + rng.choice([0.5, 1.0])
        if rng.random() < 0.3:
            t += 3.0
            tl.append([t, "check"])
            t += 1.0
        te = appear(p, t, False)
        t = te + 0.5 + lag
        tl.append([t, "create", p, "team-a", "x"])
    t += 1.0
    for p in late:
        tl.append([t, "create", p, "team-a", "y"])
        tl.append([t + 0.5, "edit", p, "team-a", "y"])
    t += 5.0 + lag
    tl.append([t, "check"])
    sc.update({"timeline": tl, "end": t + 2.0})
    return sc


# namespace pattern sets (kopf's syntax: globs, comma-lists, negations; several patterns = any of them)
PATTERN_SETS = [["team-*"], ["team-*"], ["team-a", "team-b"], ["team-*", "other"], ["team-*,!team-b"], ["!other,!default,!ns"],
                ["team-?", "oth*"], ["*-a, *-c", "other"], ["team-*, !team-*, team-b"], ["team-a", "team-*,!team-a"]]


def gen_pauseop(rng: random.Random, seed: int) -> dict:
    """The WHOLE operator gets paused and resumed (an extra toggle in its `operator_paused` set: the documented 'UI with a
    pause button'; peering does the same): objects, namespaces and CRDs change during the pause; checkpoints inside the
    pause (nothing may be open or requested) and after the resume (everything served is watched again, from a fresh
    listing, and every change made meanwhile reaches the handlers)."""
    clusterwide = rng.random() < 0.4
    handlers = ["kopfexamples"] + [p for p in ["widgets", "clusterthings"] if rng.random() < 0.4]
    init_res = ["kopfexamples"] + [p for p in ["widgets", "clusterthings"] if rng.random() < 0.5]
    init_ns = ["team-a"] + [n for n in ["team-b", "other"] if rng.random() < 0.5]
    tl: list[list] = [[1.0, "create", "kopfexamples", "team-a", "x"], [3.0, "check"]]
    t = 4.0
    for _ in range(rng.choice([1, 1, 2])):
        if rng.random() < 0.4:
            tl.append([t, "edit", "kopfexamples", "team-a", "x"])
        t += rng.choice([0.0, 1 / 64, 0.25, 1.0])
        tl.append([t, "pause"])
        for _k in range(rng.choice([1, 2, 3])):
            dt = rng.choice([1 / 64, 0.125, 0.5, 1.0, 1.5])
            q = rng.random()
            if q < 0.45:
                tl.append([t + dt, rng.choice(["edit", "create", "create"]), rng.choice(handlers), rng.choice(init_ns), rng.choice(["x", "y"])])
            elif q < 0.65:
                tl.append([t + dt, rng.choice(["add_ns", "add_ns", "del_ns"]), rng.choice(["team-b", "team-c", "other"])])
            elif q < 0.8:
                tl.append([t + dt, rng.choice(["add_res", "del_res"]), rng.choice(["widgets", "clusterthings"])])
            elif q < 0.9:
                tl.append([t + dt, "compact", "kopfexamples"])
            else:
                tl.append([t + dt, "edit", "kopfexamples", "team-a", "x"])
        tl.append([t + 2.0, "check"])
        t += rng.choice([2.5, 3.0, 5.0])
        tl.append([t, "resume"])
        if rng.random() < 0.5:
            tl.append([t + rng.choice([1 / 64, 0.5]), "edit", "kopfexamples", "team-a", "x"])
        t += 4.0
        tl.append([t, "check"])
        t += 1.0
    return {"seed": seed, "pauseop": True, "clusterwide": clusterwide, "patterns": rng.choice(PATTERN_SETS[:4]), "handlers": handlers,
            "initial_resources": init_res, "initial_namespaces": init_ns, "timeline": tl, "end": t + 2.0}


def gen_nsterm(rng: random.Random, seed: int) -> dict:
    """Namespaces go the way Kubernetes deletes them: Terminating (deletionTimestamp + conditions, content and finalizers
    remaining) for a while — the objects in it still change and must still be served —, then finished and removed.
    Some are Terminating already when the operator starts. Patterns: globs, lists, negations."""
    patterns = rng.choice(PATTERN_SETS)
    handlers = ["kopfexamples"] + (["clusterthings"] if rng.random() < 0.3 else [])
    init_ns = ["team-a"] + [n for n in ["team-b", "team-c", "other"] if rng.random() < 0.5]
    sc: dict = {"seed": seed, "nsterm": True, "clusterwide": False, "patterns": patterns, "handlers": handlers,
                "initial_resources": list(handlers), "initial_namespaces": init_ns}
    tl: list[list] = []
    if rng.random() < 0.25:
        sc["initial_terminating"] = [rng.choice(["team-b", "team-c", "team-d"])]
        tl.append([1.5, "create", "kopfexamples", sc["initial_terminating"][0], "z"])
    victim = rng.choice(init_ns)
    tl += [[1.0, "create", "kopfexamples", victim, "x"], [3.0, "check"]]
    t = 4.0
    tl.append([t, "term_ns", victim])
    t += rng.choice([1 / 64, 0.5, 1.0])
    tl.append([t, "edit", "kopfexamples", victim, "x"])      # e.g. its deletion mark: the operator must still see it
    if rng.random() < 0.4:
        tl.append([t + 0.25, rng.choice(["add_ns", "del_ns"]), rng.choice(["team-b", "team-c", "team-d", "other"])])
    t += 2.0
    tl.append([t, "check"])
    if rng.random() < 0.7:
        t += 1.0
        tl.append([t, "fin_ns", victim])
        if rng.random() < 0.4:
            tl.append([t + rng.choice([1 / 64, 0.5]), "add_ns", victim])     # re-created under the same name
        t += 3.0
        tl.append([t, "check"])
    sc["timeline"] = tl
    sc["end"] = t + 2.0
    return sc


def gen_restricted(rng: random.Random, seed: int) -> dict:
    """The restricted modes of observation.py: namespaces cannot be listed (HTTP 403: fall back to the exact names among
    the patterns), can be listed but not watched (the start-up set stays), or settings.scanning.disabled."""
    mode = rng.choice(["list", "list", "watch", "disabled"])
    patterns = rng.choice([["team-a", "team-*"], ["team-a", "team-b"], ["team-a", "team-z", "oth*"], ["team-*"], ["team-b,!x", "team-a"]])
    handlers = ["kopfexamples"] + (["clusterthings"] if rng.random() < 0.3 else [])
    init_ns = ["team-a"] + [n for n in ["team-b", "other"] if rng.random() < 0.5]
    sc: dict = {"seed": seed, "restricted": mode, "clusterwide": False, "patterns": patterns, "handlers": handlers,
                "initial_resources": list(handlers), "initial_namespaces": init_ns}
    if mode == "disabled":
        sc["scanning_disabled"] = True
    else:
        sc["ns_forbidden"] = mode
    tl: list[list] = [[1.0, "create", "kopfexamples", "team-a", "x"], [5.0, "check"]]
    t = 6.0
    for _ in range(rng.choice([1, 2])):
        q = rng.random()
        if q < 0.5:
            tl.append([t, rng.choice(["add_ns", "add_ns", "del_ns"]), rng.choice(["team-b", "team-c", "other"])])
        else:
            tl.append([t, rng.choice(["create", "edit"]), "kopfexamples", rng.choice(["team-a", "team-b"]), rng.choice(["x", "y"])])
        t += 1.0
    t += 3.0
    tl.append([t, "check"])
    sc["timeline"] = tl
    sc["end"] = t + 2.0
    return sc


def gen_kinds(rng: random.Random, seed: int) -> dict:
    """Resources served by OTHER kinds of handlers (daemons, timers, indices, create/update/delete/resume) — alone or
    beside on.event —, API groups used by such handlers only, and resources whose verbs lack patch / watch / list."""
    clusterwide = rng.random() < 0.4
    universe = ["kopfexamples", "widgets", "clusterthings"]
    handlers = [p for p in universe if rng.random() < 0.4]
    extra = []
    for p in universe:
        if rng.random() < 0.55:
            extra.append({"plural": p, "kind": rng.choice(["daemon", "timer", "index", "create", "update", "delete", "resume"])})
    if not handlers and not extra:
        extra.append({"plural": "widgets", "kind": rng.choice(["daemon", "timer"])})
    verbs: dict = {}
    for p in universe:
        q = rng.random()
        if q < 0.25:
            verbs[p] = ["get", "list", "watch"]                    # read-only: fine for on.event / indices
        elif q < 0.33:
            verbs[p] = ["get", "list", "patch"]                    # cannot be watched
        elif q < 0.38:
            verbs[p] = ["get", "watch", "patch", "create"]         # cannot be listed
    init_res = [p for p in universe if rng.random() < 0.7]
    tl: list[list] = [[1.0, "create", rng.choice(universe), "team-a", "x"], [3.0, "check"]]
    t = 4.0
    for _ in range(rng.choice([1, 2, 3])):
        tl.append([t, rng.choice(["add_res", "add_res", "del_res"]), rng.choice(universe)])
        if rng.random() < 0.5:
            tl.append([t + 0.5, "create", rng.choice(universe), rng.choice(["team-a", "team-b"]), rng.choice(["x", "y"])])
        t += 3.0
        tl.append([t, "check"])
        t += 1.0
    return {"seed": seed, "kinds": True, "clusterwide": clusterwide, "patterns": rng.choice(PATTERN_SETS[:5]), "handlers": handlers,
            "extra_handlers": extra, "verbs": verbs, "initial_resources": init_res, "initial_namespaces": ["team-a", "team-b"],
            "timeline": tl, "end": t + 2.0}


SCOPE = {"kopfexamples": True, "widgets": True, "clusterthings": False}
META_PLURALS = ("namespaces", "customresourcedefinitions")


GVP = {"kopfexamples": ("kopf.dev", "v1"), "clusterthings": ("kopf.dev", "v1"), "widgets": ("example.org", "v1")}


def served_from_discovery(sc: dict, discovery: list[dict]) -> list[tuple]:
    """Which resources the operator must serve NOW, from the API server's discovery documents and the handlers'
    selectors only (kopf's documented rules, written down independently of observation.py / references.py):
    a selector without a version takes the group's preferred version only; a name matches plural / kind / singular /
    short names; a category selects every resource carrying it; a SPECIFIC selector (anything but a category) that
    matches several resources is ambiguous and those resources are not served at all (core-group resources win first);
    a resource that cannot be listed and watched is not served."""
    sels: list[dict] = [{"group": GVP[p][0], "version": GVP[p][1], "name": p} for p in sc["handlers"]]
    # daemons, timers, indices and changing handlers serve a resource like on.event does; those that keep a state
    # on the object (all but on.event and indices) need the `patch` verb on it
    for eh in sc.get("extra_handlers", []):
        sels.append({"group": GVP[eh["plural"]][0], "version": GVP[eh["plural"]][1], "name": eh["plural"],
                     "patching": eh["kind"] not in ("index",)})
    for spec in sc.get("selectors", []):
        sels.append({"group": None, "version": None,
                     "name": spec["value"] if spec["by"] == "name" else None,
                     "category": spec["value"] if spec["by"] == "category" else None,
                     "shortcut": spec["value"] if spec["by"] == "shortcut" else None})
    cand = [r for r in discovery if r["plural"] not in META_PLURALS]

    def select(sel: dict) -> list[dict]:
        out = []
        for r in cand:
            if sel.get("group") is not None and sel["group"] != r["group"]:
                continue
            if sel.get("version") is not None:
                if sel["version"] != r["version"]:
                    continue
            elif not r["preferred"]:
                continue
            nm = sel.get("name")
            if nm is not None and nm not in (r["plural"], r["kind"], r["singular"], *r["shortnames"]):
                continue
            if sel.get("category") is not None and sel["category"] not in r["categories"]:
                continue
            if sel.get("shortcut") is not None and sel["shortcut"] not in r["shortnames"]:
                continue
            out.append(r)
        if sel.get("category") is None:      # specific
            core = [r for r in out if r["group"] == ""]
            out = core or out
        return out

    ident = lambda r: (r["group"], r["version"], r["plural"])  # noqa: E731
    served = {ident(r): r for sel in sels for r in select(sel)}
    for sel in sels:
        if sel.get("category") is None:
            picked = [r for r in select(sel) if ident(r) in served]
            if len(picked) > 1:
                for r in picked:
                    served.pop(ident(r), None)
    need_patch = {ident(r) for sel in sels if sel.get("patching") for r in select(sel)}
    return sorted(k for k, r in served.items() if "list" in r["verbs"] and "watch" in r["verbs"]
                  and (k not in need_patch or "patch" in r["verbs"]))


def ns_pattern_matches(name: str, pattern: str) -> bool:
    """kopf's documented namespace pattern syntax (docs/scopes + the docstring of match_namespace), written down
    independently: comma-separated globs, spaces ignored; `!glob` excludes; a leading exclusion implies a leading `*`;
    the first glob decides the initial match, later inclusive globs only re-include what a previous exclusion dropped."""
    import fnmatch
    globs = [g.strip() for g in pattern.split(",")]
    if globs and globs[0].startswith("!"):
        globs = ["*"] + globs
    if not fnmatch.fnmatchcase(name, globs[0]):
        return False
    included = True
    for g in globs[1:]:
        if g.startswith("!"):
            if fnmatch.fnmatchcase(name, g[1:]):
                included = False
        elif not included and fnmatch.fnmatchcase(name, g):
            included = True
    return included


def ns_matches(name: str, patterns: list) -> bool:
    return any(ns_pattern_matches(name, p) for p in patterns)


def exact_names(patterns: list) -> list:
    """the patterns usable as plain namespace names (the documented fallback when namespaces cannot be observed)"""
    return sorted({p for p in patterns if not any(ch in p for ch in "!*?,")})


def served_namespaces(sc: dict, r: dict, c: dict) -> list:
    """Which namespaces the operator must serve at checkpoint `c`: cluster-wide → [None]; namespaces cannot be
    listed (HTTP 403) or scanning is disabled → the exact names among the patterns, whether they exist or not;
    namespaces can be listed but not watched → those of the start-up listing; otherwise every EXISTING namespace
    (a Terminating one exists, and its content still needs the operator) that matches a pattern."""
    if sc.get("clusterwide", True):
        return [None]
    if sc.get("scanning_disabled") or sc.get("ns_forbidden") in ("list", "both"):
        return exact_names(sc["patterns"])
    if sc.get("ns_forbidden") == "watch":
        return [n for n in r.get("initial_cluster_namespaces", []) if ns_matches(n, sc["patterns"])]
    return [n for n in c["namespaces"] if ns_matches(n, sc["patterns"])]


def _dropped_for_anothers_patching(sc: dict, c: dict, plural: str) -> bool:
    """`plural` cannot be patched, no handler that patches selects it (on.event / index only), it can be listed and watched —
    and some OTHER resource that cannot be patched either is selected by a patching handler (open finding C19-F10)."""
    if "discovery" not in c:
        return False
    verbs = {r["plural"]: r["verbs"] for r in c["discovery"]}
    patching = {eh["plural"] for eh in sc.get("extra_handlers", []) if eh["kind"] != "index"}
    if plural not in verbs or "patch" in verbs[plural] or plural in patching:
        return False
    return any(p != plural and p in verbs and "patch" not in verbs[p] and "list" in verbs[p] and "watch" in verbs[p] for p in patching)


def _f10(sc: dict, r: dict, c: dict, plural: str) -> bool:
    """C19-F10 now, or earlier in this run with no re-scan of `plural`'s own API group since: the victim is only re-selected
    by a re-scan of ITS group (a CRD event there); the removal of the other resource re-scans the other's group only."""
    if _dropped_for_anothers_patching(sc, c, plural):
        return True
    for c0 in r["checkpoints"]:
        if c0["t"] <= c["t"] and _dropped_for_anothers_patching(sc, c0, plural):
            rescans = [e for e in r.get("crd_events", []) if c0["t"] <= e[0] <= c["t"] and e[1].endswith("." + GVP[plural][0])]
            if not rescans:
                return True
    return False


def _meta_gaps(sc: dict) -> dict:
    """Time windows in which a meta-watch is down and will re-LIST (not resume): after a 410 on it (in-stream, or
    a too-old resume after a compaction), and the start-up double listing."""
    gaps: dict[str, list] = {"namespaces": [[0.0, 0.1]], "customresourcedefinitions": [[0.0, 0.1]]}
    compacted: dict[str, float] = {}
    for o in sorted(sc["timeline"], key=lambda x: x[0]):
        if o[1] == "compact" and o[2] in META_PLURALS:
            compacted[o[2]] = o[0]
        if o[1] == "break" and o[2] in META_PLURALS and (o[3] == "410" or o[2] in compacted):
            gaps[o[2]].append([o[0], o[0] + 0.25])
    return gaps


def _in_gap(sc: dict, kind: str, name: str) -> bool:
    gaps = _meta_gaps(sc)
    ops = ("add_ns", "del_ns") if kind == "ns" else ("add_res", "del_res")
    meta = "namespaces" if kind == "ns" else "customresourcedefinitions"
    return any(o[1] in ops and o[2] == name and any(g[0] <= o[0] <= g[1] for g in gaps[meta]) for o in sc["timeline"])


def _revision_causes(sc: dict, r: dict) -> list:
    """[(time of delivery, what)]: the moments at which the CLUSTER handed the operator an event of a namespace or of a
    CRD. Every such event makes an observer revise the insights and notify the orchestrator, whether the event changes
    what is served or not (a CRD touched, re-applied, deleted and re-created in a blink; a label on a namespace; a
    namespace or CRD nobody serves). Read off the stored versions of the fake API server only — never off the operator:
    CRD events count unless scanning is disabled; namespace events count for a namespaced operator that may list and
    watch namespaces; an event stored while its meta-watch is down and re-LISTS (open C19-F8) does not count; the
    delivery is late by the scenario's `meta_lag`."""
    lag = sc.get("meta_lag") or {}
    gaps = _meta_gaps(sc)
    out = []
    if not sc.get("scanning_disabled"):
        for t, name, ev in r.get("crd_events", []):
            if not any(g[0] <= t <= g[1] for g in gaps["customresourcedefinitions"]):
                out.append((t + float(lag.get("customresourcedefinitions", 0.0)), f"CRD {name} {ev} at t={t}"))
        if not sc.get("clusterwide", True) and not sc.get("ns_forbidden"):
            for t, name, ev in r.get("ns_events", []):
                if not any(g[0] <= t <= g[1] for g in gaps["namespaces"]):
                    out.append((t + float(lag.get("namespaces", 0.0)), f"namespace {name} {ev} at t={t}"))
    return sorted(out)


def _exited_on_404(r: dict, pair: tuple, t: float) -> float | None:
    """The time of the LAST list/watch request for `pair` up to t if the API server answered it 404 (the watcher of the
    pair exits on that answer and sends nothing more), else None."""
    qs = [q for q in r.get("obj_requests", []) if (q["plural"], q["ns"]) == tuple(pair) and q["t"] <= t]
    # the log keeps the time a request was SENT; its answer — and with it the watcher's exit — comes one round-trip later
    # (harness/sim/fakeapi.LATENCY = 1/64 s, the same for every request of these runs)
    return qs[-1]["t"] + 1 / 64 if qs and qs[-1]["response"] == 404 else None


def _settle(sc: dict) -> float:
    # an event → the observer's re-scan → the lock → a pass (which may wait `exit_timeout` for a handler in flight) → list → watch
    return 1.0 + float((sc.get("settings") or {}).get("exit_timeout", 2.0)) + float(sc.get("handler_sleep") or 0.0)


def _healing_due(sc: dict, r: dict, pair: tuple, t: float) -> str | None:
    """The watcher of `pair` exited on HTTP 404 and AFTER that the cluster delivered a namespace/CRD event, long enough
    before t: the insights were revised after the exit, the pair must be watched again (what C19-F6 leaves of the
    clause 'exactly one watch per served pair': '… until the next revision'). Returns the evidence, or None."""
    t404 = _exited_on_404(r, pair, t)
    if t404 is None:
        return None
    # the watcher's task ends at once on the 404 — unless a handler of one of ITS objects is in flight: then the watcher waits
    # for its workers (up to `exit_timeout`) before it ends, and a revision in between still finds the task running
    hs = float(sc.get("handler_sleep") or 0.0)
    busy = hs > 0 and any(c["res"] == pair[0] and (pair[1] is None or c["ns"] == pair[1]) and t404 - hs - 0.125 <= c["t"] <= t404 + 0.125
                          for c in r.get("calls", []))
    slack = float((sc.get("settings") or {}).get("exit_timeout", 2.0)) + hs if busy else 0.0
    due = [what for td, what in _revision_causes(sc, r) if t404 + slack < td <= t - _settle(sc)]
    return f"its last request (sent at t={t404 - 1 / 64}) was answered 404; delivered after that: {due[:3]}" if due else None


def _died_unnoticed(sc: dict, r: dict, pair: tuple, t: float) -> bool:
    """The excuse of open finding C19-F6, judged from the cluster's side only (never from what the orchestrator did:
    'no pass has run' is what a broken orchestrator shows as well): the watcher of `pair` exited on HTTP 404 and the
    cluster has delivered NO namespace/CRD event since."""
    return _exited_on_404(r, pair, t) is not None and _healing_due(sc, r, pair, t) is None


def _never_listed_since_appeared(r: dict, pair: tuple, t: float) -> float | None:
    """The last time up to t at which the API server began to serve the kind of `pair`, if no list request for the pair has
    been sent to it since; None when the kind did not appear at runtime or was listed afterwards."""
    apps = [a[0] for a in r.get("appearances", []) if a[1] == pair[0] and a[0] <= t]
    if not apps:
        return None
    listed = any(q["kind"] == "list" and (q["plural"], q["ns"]) == tuple(pair) and apps[-1] <= q["t"] <= t for q in r.get("obj_requests", []))
    return None if listed else apps[-1]


def _recreated(sc: dict, name: str) -> bool:
    ops = sorted((o for o in sc["timeline"] if o[1] in ("add_ns", "del_ns") and o[2] == name), key=lambda x: x[0])
    seen_del = False
    for o in ops:
        if o[1] == "del_ns":
            seen_del = True
        elif seen_del:
            return True
    return False


def oracle_operator(sc: dict, r: dict) -> list[tuple[str, dict]]:
    import fnmatch
    fails: list[tuple[str, dict]] = []
    gone410 = {q["path"].rstrip("/").split("/")[-1] for q in r["watch_requests"] if q["response"] == 410}
    for c in r["checkpoints"]:
        if not c["alive"]:
            fails.append((f"the operator is not running at t={c['t']}: {r.get('op_error')}",
                          {"site": "running.operator", "shape": "operator exited during namespace/CRD churn"}))
            break
        served_gvp = served_from_discovery(sc, c["discovery"]) if "discovery" in c else None
        served = sorted({g[2] for g in served_gvp}) if served_gvp is not None else [p for p in sc["handlers"] if p in c["resources"]]
        nss: list = served_namespaces(sc, r, c)
        want = sorted(((p, n if SCOPE[p] else None) for p in served for n in nss), key=str)
        want = sorted(set(want), key=str)
        if c.get("paused"):
            want = []           # while paused nothing is watched (the watchers exist, their streams are closed)
            nss = []
        got = sorted(((w[0], w[1]) for w in c["watches"] if w[0] not in ("namespaces", "customresourcedefinitions")), key=str)
        if got == want and served_gvp is not None:
            # the same clause per API VERSION of a resource: the current discovery decides which version is served
            scope = {(r["group"], r["version"], r["plural"]): r["namespaced"] for r in c["discovery"]}
            want_v = sorted({(g, v, p, n if scope[(g, v, p)] else None) for (g, v, p) in served_gvp for n in nss}, key=str)
            got_v = sorted((tuple(w) for w in c["watches_v"] if w[2] not in META_PLURALS), key=str)
            if got_v != want_v:
                fails.append((f"t={c['t']}: open watches {got_v} != what the current discovery and the selectors serve {want_v}",
                              {"site": "observation.revise_resources",
                               "shape": "watched (group, version, plural, namespace) != served by the current discovery and selectors"}))
        if got != want and c.get("paused"):
            fails.append((f"t={c['t']}: the operator is paused since t={r['pauses'][-1][0]} but watches are open: {got}",
                          {"site": "orchestration.spawn_missing_watchers/queueing.watcher", "shape": "watch open while the operator is paused"}))
        elif got != want:
            extra = [g for g in got if g not in want]
            missing = [w for w in want if w not in got]
            dup = len(set(got)) != len(got)
            term = set(c.get("terminating", [])) | set(sc.get("initial_terminating", []))
            init_term = [n for n in sc.get("initial_terminating", []) if n in term]
            if not extra and not dup and missing and init_term and all(
                    (SCOPE[m[0]] and m[1] in init_term) or (not SCOPE[m[0]] and all(n in init_term for n in nss)) for m in missing):
                fails.append((f"t={c['t']}: served pair(s) {missing} have no watch: the namespace was already Terminating (content and "
                              "finalizers remaining) when the operator started and was never taken into the insights", F9_SIG))
            elif not extra and not dup and missing and all(_f10(sc, r, c, m[0]) for m in missing):
                fails.append((f"t={c['t']}: served pair(s) {missing} have no watch: the resource is read-only and served by on.event/index "
                              "handlers only, but it was dropped together with another non-patchable resource that has a patching handler", F10_SIG))
            elif not missing and not dup and not nss and all((not SCOPE[g[0]]) and g[1] is None and g[0] in served for g in extra):
                fails.append((f"t={c['t']}: no namespace is served but the cluster-scoped watch(es) {extra} are still open", F3_SIG))
            elif not dup and (extra or missing) and all(
                    (SCOPE[m[0]] and m[1] is not None and _in_gap(sc, "ns", m[1])) or _in_gap(sc, "res", m[0])
                    # a cluster-scoped watch kept because a namespace deleted in a gap still counts as served
                    or (not SCOPE[m[0]] and m in extra and any(o[1] == "del_ns" and _in_gap(sc, "ns", o[2]) for o in sc["timeline"]))
                    for m in extra + missing):
                fails.append((f"t={c['t']}: open watches {got} != served pairs {want}: the namespace/CRD of {extra + missing} changed while "
                              "its meta-watch was down and was only seen in a listing, which the observers ignore", F8_SIG))
            elif not dup and not extra and missing and all(SCOPE[m[0]] and m[1] is not None and _recreated(sc, m[1]) for m in missing):
                fails.append((f"t={c['t']}: served pair(s) {missing} have no watch: the namespace was deleted and re-created, and the "
                              "DELETED of the old incarnation was applied after the ADDED of the new one", F7_SIG))
            elif not extra and not dup and missing and any(_healing_due(sc, r, m, c["t"]) for m in missing):
                ev = [f"{m}: {_healing_due(sc, r, m, c['t'])}" for m in missing if _healing_due(sc, r, m, c["t"])]
                fails.append((f"t={c['t']}: served pair(s) {missing} have no watch: the watcher exited on HTTP 404, the cluster delivered "
                              f"namespace/CRD events afterwards (every one of them revises the insights), and no watch was opened again: {ev}",
                              UNHEALED_SIG))
            elif not extra and not dup and missing and all(m[0] in r.get("not_found", []) for m in missing) and \
                    all(_died_unnoticed(sc, r, m, c["t"]) for m in missing):
                fails.append((f"t={c['t']}: served pair(s) {missing} have no watch: the watcher exited on HTTP 404 and no revision of the "
                              "insights followed, so no pass has replaced it", F6_SIG))
            elif not extra and not dup and missing and all(m[0] in r.get("not_found", []) for m in missing):
                fails.append((f"t={c['t']}: served pair(s) {missing} have no watch: the watcher died on HTTP 404 while its CRD was away, "
                              "its key stayed in the ensemble, and it is never started again", F4_SIG))
            elif not extra and not dup and missing and all(m[0] in gone410 for m in missing):
                fails.append((f"t={c['t']}: served pair(s) {missing} have no watch: the watcher died on HTTP 410 and is never restarted", F1_SIG))
            elif not extra and not dup and missing and all(_never_listed_since_appeared(r, m, c["t"]) is not None for m in missing):
                # 'resource kinds appearing': read off the API server alone — when it began to serve the kind, and that no
                # list request for the pair has reached it since
                ev = [f"{m}: served by the API server since t={_never_listed_since_appeared(r, m, c['t'])}" for m in missing]
                fails.append((f"t={c['t']}: served pair(s) {missing} have no watch: the kind appeared in the cluster at runtime (its CRD "
                              f"became established), the handlers select it, and its objects were never listed since: {ev}",
                              {"site": "observation.resource_observer", "shape": "a kind that appeared at runtime and is served was never listed"}))
            else:
                fails.append((f"t={c['t']}: open watches {got} != served pairs {want}",
                              {"site": "orchestration.adjust_tasks", "shape": "active watches != served pairs"}))
    # -- while paused nothing is listed or watched; watching restarts with a fresh listing on resume ----------------
    pauses = r.get("pauses") or []
    for q in r.get("obj_requests", []):
        for p0, p1 in pauses:
            if q["t"] > p0 and (p1 is None or q["t"] < p1):      # strictly inside: the pause→notice window has no virtual duration
                fails.append((f"a {q['kind']} request for {q['plural']} (namespace {q['ns']}) was sent at t={q['t']} while the operator "
                              f"was paused since t={p0}",
                              {"site": "orchestration.spawn_missing_watchers/queueing.watcher", "shape": "list/watch request sent while the operator is paused"}))
                break
        else:
            continue
        break
    for p0, p1 in pauses:
        if p1 is None:
            continue
        first: dict = {}
        before = {(q["plural"], q["ns"]) for q in r.get("obj_requests", []) if q["t"] <= p0}
        for q in r.get("obj_requests", []):
            if q["t"] >= p1 and (q["plural"], q["ns"]) not in first:
                first[(q["plural"], q["ns"])] = q
        for pair, q in sorted(first.items(), key=str):
            if pair in before and q["kind"] != "list":
                fails.append((f"the first request for {pair} after the resume at t={p1} is a watch since {q['since']}, not a fresh listing",
                              {"site": "watching.infinite_watch", "shape": "first request after resume is not a list"}))
                break
    # every object of a served pair: its latest version reached a handler (the operator is still running)
    if r["checkpoints"] and r["checkpoints"][-1]["alive"]:
        last = r["checkpoints"][-1]
        served = sorted({g[2] for g in served_from_discovery(sc, last["discovery"])}) if "discovery" in last else \
            [p for p in sc["handlers"] if p in last["resources"]]
        ok_ns = None if sc.get("clusterwide", True) else served_namespaces(sc, r, last)
        # the object-level clause is observed through on.event handlers: only resources that have one
        evented = set(sc["handlers"]) | ({g[2] for g in served_from_discovery(sc, last["discovery"])} if sc.get("selectors") and "discovery" in last else set())
        seen = {(c["res"], c["ns"], c["name"]): c["rv"] for c in r["calls"]}
        last_type = {(c["res"], c["ns"], c["name"]): c["type"] for c in r["calls"]}
        present = {(p, n, nm) for p, n, nm, _rv in last["objects"]}
        open_now = {(w[0], w[1]) for w in last["watches"]}
        for (plural, ns, name), typ in sorted(last_type.items(), key=str):
            pair = (plural, ns if SCOPE[plural] and ok_ns is not None else None)
            if typ != "DELETED" and (plural, ns, name) not in present and plural in served and pair in open_now:
                fails.append((f"{plural}/{ns}/{name} was handled, is gone now, and no handler was ever called with DELETED for it", F5_SIG))
                break
        served_v = set(served_from_discovery(sc, last["discovery"])) if "discovery" in last else None
        stored_v = {(p, n, nm): (g, v, p) for g, v, p, n, nm in last.get("objects_gvp", [])}
        for plural, ns, name, rv in last["objects"]:
            if last.get("paused"):
                break           # nothing is delivered while paused; the run ends un-paused in every generated scenario
            if served_v is not None and (plural, ns, name) in stored_v and stored_v[(plural, ns, name)] not in served_v:
                continue        # limit of the fake: the object is stored under an API version that is not the served one
            if plural not in served or plural not in evented or (SCOPE[plural] and ok_ns is not None and ns not in ok_ns):
                continue
            if not SCOPE[plural] and ok_ns is not None and not ok_ns:
                continue        # no namespace is served: no (resource, namespace) pair is served at all
            if seen.get((plural, ns, name)) != rv:
                pair_open = (plural, ns if SCOPE[plural] and ok_ns is not None else None) in open_now
                if not pair_open and SCOPE[plural] and ns in sc.get("initial_terminating", []) and ns in last.get("terminating", []):
                    fails.append((f"{plural}/{ns}/{name} is at version {rv}, never handled: its namespace was already Terminating when the "
                                  "operator started and is not served", F9_SIG))
                elif not pair_open and _f10(sc, r, last, plural):
                    fails.append((f"{plural}/{ns}/{name} is at version {rv}, never handled: its read-only resource was dropped together with "
                                  "another non-patchable resource that has a patching handler", F10_SIG))
                elif not pair_open and ((SCOPE[plural] and ns is not None and _in_gap(sc, "ns", ns)) or _in_gap(sc, "res", plural)):
                    fails.append((f"{plural}/{ns}/{name} is at version {rv}, never handled: its namespace/CRD appeared while the meta-watch "
                                  "was down and is not served", F8_SIG))
                elif not pair_open and SCOPE[plural] and ns is not None and _recreated(sc, ns):
                    fails.append((f"{plural}/{ns}/{name} is at version {rv}, never handled: its re-created namespace is not served", F7_SIG))
                elif not pair_open and _healing_due(sc, r, (plural, ns if SCOPE[plural] and ok_ns is not None else None), last["t"]):
                    why = _healing_due(sc, r, (plural, ns if SCOPE[plural] and ok_ns is not None else None), last["t"])
                    fails.append((f"{plural}/{ns}/{name} is at version {rv}, the last version a handler saw is {seen.get((plural, ns, name))}: "
                                  f"its watcher exited on HTTP 404, namespace/CRD events followed, and no watch was opened again ({why})",
                                  UNHEALED_SIG))
                elif (plural, ns if SCOPE[plural] and ok_ns is not None else None) not in open_now and plural in r.get("not_found", []) and \
                        _died_unnoticed(sc, r, (plural, ns if SCOPE[plural] and ok_ns is not None else None), last["t"]):
                    fails.append((f"{plural}/{ns}/{name} is at version {rv}, the last version a handler saw is {seen.get((plural, ns, name))}: "
                                  "its watcher exited on HTTP 404 and the cluster has delivered no namespace/CRD event since", F6_SIG))
                elif plural in r.get("not_found", []) and (plural, ns if SCOPE[plural] else None) not in \
                        {(w[0], w[1]) for w in last["watches"]} and (plural, None) not in {(w[0], w[1]) for w in last["watches"]}:
                    fails.append((f"{plural}/{ns}/{name} is at version {rv}, the last version a handler saw is {seen.get((plural, ns, name))}: "
                                  "its watcher died on HTTP 404 and is never started again", F4_SIG))
                elif plural in gone410:
                    fails.append((f"{plural}/{ns}/{name} is at version {rv}, the last version a handler saw is {seen.get((plural, ns, name))}: "
                                  "the watcher died on HTTP 410 and the running operator never re-lists", F1_SIG))
                else:
                    fails.append((f"{plural}/{ns}/{name} is at version {rv} but the last version a handler saw is {seen.get((plural, ns, name))}",
                                  {"site": "operator", "shape": "change of a served object never processed by the running operator"}))
    return fails


def eval_operator(sc: dict) -> dict:
    from . import sim_c19
    r = sim_c19.run_operator(sc)
    if "sim_error" in r:
        return {"sc": sc, "sim_error": r["sim_error"]}
    fails = oracle_operator(sc, r)
    churn = [o[1] for o in sc["timeline"] if o[1] in ("add_ns", "del_ns", "add_res", "del_res", "add_crd", "accept_crd", "establish",
                                                       "add_version", "del_version",
                                                       "set_preferred", "set_categories", "set_shortnames",
                                                       "term_ns", "fin_ns", "pause", "resume", "touch_crd", "touch_ns")]
    nsreq = nsimpl = nsimpl2 = None
    feed = r.get("ns_feed") or []
    nsreq2 = None
    if feed and feed[0]["kind"] == "listing0" and not sc.get("clusterwide", True):
        ok = lambda n: ns_matches(n, sc["patterns"])  # noqa: E731
        ids: dict[str, int] = {}
        kid = lambda n: ids.setdefault(n, len(ids) + 1)  # noqa: E731
        marks0 = feed[0].get("marks") or ["live"] * len(feed[0]["names"])
        base = [kid(n) for n, m in zip(feed[0]["names"], marks0) if ok(n) and m == "live"]
        base2 = [[kid(n), m, ok(n)] for n, m in zip(feed[0]["names"], marks0)]
        evs, evs2, impl = [], [], []
        impl2 = [sorted(kid(n) for n in feed[0]["after"])]
        for f in feed[1:]:
            if f["kind"] != "event":
                continue
            # the revise model gets EVERY item with the patterns' verdict (an independent matcher's) on its name
            evs2.append([f["type"], kid(f["name"]), f.get("mark", "live"), ok(f["name"])])
            impl2.append(sorted(kid(n) for n in f["after"]))
            if not ok(f["name"]):
                continue
            evs.append([f["type"], kid(f["name"])])
            impl.append(sorted(kid(n) for n in f["after"]))
        all_live = all(m == "live" for _k, m, o in base2 if o) and all(e[2] == "live" for e in evs2 if e[3])
        # the events-only view (`evView`, what insights_follow_cluster_partial is about) knows live namespaces only;
        # the revise_namespaces model (`reviseNs`: Terminating / blocked / finishing) is tied on every feed
        nsreq = ["C19.nsfold", base, evs, sorted(ids.values())] if all_live else None
        nsreq2 = ["C19.nsrevise", [], base2, evs2]
        nsimpl = impl
        nsimpl2 = impl2
        # what the property wants after the observer's own listing: every matching namespace that exists — a Terminating
        # one with content remaining exists (one with nothing remaining is as good as gone)
        want0 = sorted(kid(n) for n, m in zip(feed[0]["names"], marks0) if ok(n) and m != "finishing")
        got0 = sorted(kid(n) for n in feed[0]["after"])
        if got0 != want0 and got0 == sorted(base) and any(m == "blocked" and o for _k, m, o in base2):
            fails.append(("the observer's own listing showed a matching namespace that is Terminating with content/finalizers "
                          "remaining: it was not taken into the insights", F9_SIG))
        elif got0 != want0:
            fails.append(("the observer's own listing did not put exactly the matching namespaces into the insights",
                          {"site": "observation.namespace_observer", "shape": "insights after the first listing != matching namespaces"}))
    # the CRD observer's feed vs the Lean fold (Model/C19_Discovery): every item handed to the real processor, with the real
    # scan made for it; runs whose handlers select by (group, version, plural) with full verbs (what the selectors pick of a
    # scan is then the handlers' own kinds; the other selectors are Model/C19_Resources' and the oracle's subject)
    crdreq = crdimpl = None
    cfeed = r.get("crd_feed") or []
    if cfeed and cfeed[0]["type"] == "STARTUP" and not (sc.get("selectors") or sc.get("verbs") or sc.get("extra_handlers")):
        gids: dict = {}
        rids: dict = {}
        gid = lambda g: gids.setdefault(g, len(gids))  # noqa: E731
        rid = lambda v, p: rids.setdefault((v, p), len(rids))  # noqa: E731
        picked = lambda scan, grp: sorted(rid(v, p) for g, v, p in scan if p in sc["handlers"] and GVP.get(p) == (g, v) and (grp is None or g == grp))  # noqa: E731
        pairs = lambda ws: sorted([gid(g), rid(v, p)] for g, v, p in ws)  # noqa: E731
        items, crdimpl = [], []
        for f in cfeed[1:]:
            if f["type"] == "STARTUP" or f.get("group") is None or f.get("name") is None:
                items = None
                break
            items.append([f["type"], 0, int(f.get("gen") or 0), gid(f["group"]), picked(f["scan"], f["group"]) if f["scan"] is not None else []])
            # an event (not an item of a listing) for which the processor made no scan at all has no counterpart in the model
            crdimpl.append(pairs(f["after"]) if (f["scan"] is not None or f["type"] == "LISTED") else "no re-scan for a CRD event")
        if items:
            crdreq = ["C19.crdfold", pairs(cfeed[0]["after"]), items]
        else:
            crdimpl = None
    trace = r.get("orch_trace") or []
    # a pass cut off by the end of the run is dropped (the trace must end after a spawnAll, or in wait())
    cut = False
    while trace and trace[-1][0] in ("acquire", "termDone"):
        trace = trace[:-1]
        cut = True
    # at rest — the last revision of the insights lies well before the end of the run, no pass was cut off — the real
    # orchestrator has had every chance to run: the model, fed the same labels, must sit in `wait()` with no wake-up pending
    # (`pass_progress`: from any other state a segment of the orchestrator is enabled, i.e. a pass is still owed)
    revs = r.get("revisions") or []
    at_rest = bool(trace) and not cut and bool(revs) and revs[-1][0] <= r.get("t_end", 0.0) - _settle(sc)
    snaps = [json.dumps(x[1], sort_keys=True) for x in revs]
    noop_revisions = sum(1 for a, b in zip(snaps, snaps[1:]) if a == b)
    # a watcher that is being stopped by this very pass (redundant) and ends meanwhile is not a death on its own:
    # drop `die k` inside a pass when `k` is not in the ensemble after that pass
    filtered: list = []
    seg_start = None
    for l in trace:
        if l[0] == "acquire":
            seg_start = len(filtered)
        filtered.append(l)
        if l[0] == "spawnAll" and seg_start is not None:
            keys = [list(k) for k in l[1]]
            filtered[seg_start:] = [x for x in filtered[seg_start:] if not (x[0] == "die" and list(x[1]) not in keys)]
            seg_start = None
    trace = filtered
    orchreq = ["C19.orch", [l[:1] if l[0] == "spawnAll" else l for l in trace]] if trace else None
    orchimpl = [l[1] for l in trace if l[0] == "spawnAll"]
    return {"sc": sc, "fails": fails, "churn": churn, "checkpoints": len(r["checkpoints"]), "nsreq": nsreq, "nsimpl": nsimpl,
            "nsreq2": nsreq2, "nsimpl2": nsimpl2, "pauses": len(r.get("pauses") or []),
            "orchreq": orchreq, "orchimpl": orchimpl, "crdreq": crdreq, "crdimpl": crdimpl,
            "orchendreq": ["C19.orchEnd", orchreq[1]] if orchreq is not None and at_rest else None,
            "n404": len(r.get("not_found_log") or []), "noop_revisions": noop_revisions, "appearances": len(r.get("appearances") or []),
            "watch_requests": len(r["watch_requests"]), "calls": len(r["calls"]),
            "shape": [[c["watches"], c["resources"], c["namespaces"]] for c in r["checkpoints"]],
            "detail": r if fails else None}


# =============================================================================================
# Pure cases: the two synchronous functions that decide WHAT is served, called directly
#   purens  — observation.revise_namespaces over a listing and a sequence of raw events
#   pureres — observation.revise_resources (→ _disable_unsuitable_resources) over discovered resources and a registry
# =============================================================================================
NS_NAMES = ["team-a", "team-b", "team-c", "team-b2", "other", "default", "ns"]
NS_SHAPES = ["live", "marked", "blocked", "finishing", "odd"]
# how `revise_namespaces` is documented to read a body (is_deleted / get_blockers): marked for deletion AND conditions present
MARK_OF_SHAPE = {"live": "live", "marked": "live", "odd": "odd", "blocked": "blocked", "finishing": "finishing"}
GENERIC_NS_SIG = {"site": "observation.revise_namespaces", "shape": "insights.namespaces != the existing matching namespaces"}
GENERIC_RES_SIG = {"site": "observation._disable_unsuitable_resources", "shape": "served resources != the suitable watched resources"}


def gen_pure_ns(rng: random.Random, seed: int) -> dict:
    patterns = rng.choice(PATTERN_SETS)
    shape = lambda: rng.choices(NS_SHAPES, weights=[45, 8, 30, 12, 5])[0]  # noqa: E731
    listing = [[n, shape()] for n in NS_NAMES if rng.random() < 0.45]
    rng.shuffle(listing)
    offcontract = rng.random() < 0.12
    events = []
    for _ in range(rng.choice([0, 1, 2, 3, 4, 6, 9])):
        typ = rng.choices(["ADDED", "MODIFIED", "DELETED"], weights=[3, 5, 3])[0]
        if typ == "DELETED":
            sh = rng.choices(["finishing", "live", "marked", "blocked", "odd"], weights=[6, 2, 1, 3 if offcontract else 0, 1 if offcontract else 0])[0]
        else:
            sh = shape()
        events.append([typ, rng.choice(NS_NAMES), sh])
    served0 = [n for n in NS_NAMES if ns_matches(n, patterns) and rng.random() < 0.5] if rng.random() < 0.15 else []
    return {"seed": seed, "patterns": patterns, "listing": listing, "events": events, "served0": served0}


def oracle_pure_ns(case: dict, r: dict) -> list[tuple[str, dict]]:
    """After the listing and after every event: every EXISTING namespace that matches a pattern is served, and nothing else.
    A namespace exists when the latest item about it is not a DELETED event and does not show it Terminating with nothing
    remaining (all conditions False: the object is about to go). Names whose latest item is a DELETED event that still
    carries a True condition are skipped (outside the namespace controller's contract, see ASSUMPTIONS)."""
    fails: list[tuple[str, dict]] = []
    word: dict[str, tuple] = {}
    for n, sh in case["listing"]:
        word[n] = (None, sh)
    steps = [("the observer's listing", None, r["after0"])] + [(f"event #{i} {e}", e, a) for i, (e, a) in enumerate(zip(case["events"], r["after"]))]
    for label, ev, got in steps:
        if ev is not None:
            typ, n, sh = ev
            if not (typ == "DELETED" and sh in ("blocked", "odd")):     # a DELETED that still shows a True condition says nothing
                word[n] = (typ, sh)
        for n in sorted(set(NS_NAMES) | set(got)):
            if ev is not None and ev[1] == n and ev[0] == "DELETED" and ev[2] in ("blocked", "odd"):
                continue
            if n in word:
                typ, sh = word[n]
                want = ns_matches(n, case["patterns"]) and typ != "DELETED" and sh != "finishing"
            else:
                want = n in case.get("served0", [])
            if want != (n in got):
                if want and n in word and word[n][1] == "blocked":
                    fails.append((f"after {label}: namespace {n} exists (Terminating, content/finalizers remaining), matches {case['patterns']}, "
                                  f"and is not in insights.namespaces {got}", F9_SIG))
                else:
                    fails.append((f"after {label}: namespace {n} {'exists and matches' if want else 'does not exist or does not match'} "
                                  f"{case['patterns']} but insights.namespaces is {got}", GENERIC_NS_SIG))
                return fails
    return fails


def eval_pure_ns(case: dict) -> dict:
    from . import sim_c19
    try:
        r = sim_c19.run_pure_ns(case)
    except Exception as e:  # noqa: BLE001 — the observer would die of it
        return {"fails": [(f"revise_namespaces raised {type(e).__name__}: {e}",
                           {"site": "observation.revise_namespaces", "shape": "exception out of revise_namespaces"})],
                "req": None, "impl": None, "shape": ["raised", type(e).__name__], "hist": {}, "first_sight_blocked": False, "mute": False,
                "nontrivial": True}
    fails = oracle_pure_ns(case, r)
    ids: dict[str, int] = {}
    kid = lambda n: ids.setdefault(n, len(ids) + 1)  # noqa: E731
    ok = lambda n: ns_matches(n, case["patterns"])  # noqa: E731
    req = ["C19.nsrevise", sorted(kid(n) for n in case.get("served0", [])),
           [[kid(n), MARK_OF_SHAPE[sh], ok(n)] for n, sh in case["listing"]],
           [[typ, kid(n), MARK_OF_SHAPE[sh], ok(n)] for typ, n, sh in case["events"]]]
    impl = [sorted(kid(n) for n in r["after0"])] + [sorted(kid(n) for n in a) for a in r["after"]]
    items = [(None, n, sh) for n, sh in case["listing"]] + [tuple(e) for e in case["events"]]
    return {"fails": fails, "req": req, "impl": impl, "shape": [req[1:], impl],
            "hist": {("DELETED" if t == "DELETED" else "listed" if t is None else "event") + ":" + sh: 1 for t, _n, sh in items},
            "first_sight_blocked": any(sh == "blocked" and t != "DELETED" and n not in case.get("served0", []) and
                                       not any(x[1] == n for x in items[:i]) for i, (t, n, sh) in enumerate(items)),
            "mute": any(t == "DELETED" and sh in ("blocked", "odd") for t, _n, sh in items),
            "nontrivial": any(sh != "live" or t == "DELETED" for t, _n, sh in items)}


FULL_VERBS = ["create", "delete", "get", "list", "patch", "update", "watch"]
RES_POOL = [
    {"group": "kopf.dev", "version": "v1", "plural": "kopfexamples", "kind": "KopfExample", "shortcuts": ["kex"], "categories": ["all", "kopf"]},
    {"group": "kopf.dev", "version": "v1beta1", "plural": "kopfexamples", "kind": "KopfExample", "shortcuts": ["kex"], "categories": ["all", "kopf"], "preferred": False},
    {"group": "kopf.dev", "version": "v1", "plural": "clusterthings", "kind": "ClusterThing", "categories": ["kopf"]},
    {"group": "example.org", "version": "v1", "plural": "widgets", "kind": "Widget", "categories": ["all"]},
    {"group": "example.org", "version": "v1", "plural": "gadgets", "kind": "Gadget", "shortcuts": ["gd"]},
    {"group": "metrics.k8s.io", "version": "v1beta1", "plural": "pods", "kind": "PodMetrics"},
    {"group": "", "version": "v1", "plural": "pods", "kind": "Pod", "shortcuts": ["po"], "categories": ["all"]},
    {"group": "", "version": "v1", "plural": "configmaps", "kind": "ConfigMap", "shortcuts": ["cm"]},
    {"group": "", "version": "v1", "plural": "events", "kind": "Event", "shortcuts": ["ev"]},
    {"group": "", "version": "v1", "plural": "componentstatuses", "kind": "ComponentStatus", "shortcuts": ["cs"]},
]
HANDLER_KINDS = ["event", "index", "daemon", "timer", "create", "update", "delete", "resume"]
KIND_CLASS = {"event": "watching", "index": "indexing", "daemon": "spawning", "timer": "spawning",
              "create": "changing", "update": "changing", "delete": "changing", "resume": "changing"}


def gen_pure_res(rng: random.Random, seed: int) -> dict:
    offcontract = rng.random() < 0.08        # a core-group resource that can be watched but not patched: no Kubernetes has one
    resources = []
    for b in rng.sample(RES_POOL, rng.choice([1, 2, 3, 3, 4, 5, 6])):
        core = b["group"] == ""
        kind = rng.choices(["full", "readonly", "update-nopatch", "nowatch", "nolist", "getonly", "patch-nowatch"], weights=[38, 30, 10, 7, 5, 4, 6])[0]
        if b["plural"] == "componentstatuses":
            kind = "nowatch"
        if core and kind in ("readonly", "update-nopatch") and not offcontract:
            kind = "full"
        verbs = {"full": FULL_VERBS, "readonly": ["get", "list", "watch"], "update-nopatch": ["create", "delete", "get", "list", "update", "watch"], "nowatch": ["get", "list"], "nolist": ["get", "watch", "patch"],
                 "getonly": ["get"], "patch-nowatch": ["get", "list", "patch", "update"]}[kind]
        resources.append({**b, "verbs": verbs})
    handlers = []
    for _ in range(rng.choice([1, 1, 2, 2, 3, 4, 5])):
        hk = rng.choices(HANDLER_KINDS, weights=[30, 10, 12, 8, 10, 14, 8, 8])[0]
        b = rng.choice(resources if rng.random() < 0.85 else RES_POOL)
        by = rng.choices(["full", "name", "category", "everything"], weights=[55, 22, 15, 8])[0]
        if by == "full":
            sel = {"by": "full", "group": b["group"], "version": b["version"], "plural": b["plural"]}
        elif by == "name":
            sel = {"by": "name", "value": rng.choice([b["plural"], b["kind"], b["kind"].lower(), *b.get("shortcuts", [])])}
        elif by == "category":
            sel = {"by": "category", "value": rng.choice(["all", "kopf", "none"])}
        else:
            sel = {"by": "everything"}
        handlers.append({"kind": hk, "sel": sel})
    return {"seed": seed, "resources": resources, "handlers": handlers}


def _accepts(sel: dict, r: dict) -> bool:
    """kopf's documented selector rules, written down independently: an exact (group, version, plural); a bare name = plural /
    kind / singular / a short name, a category, or EVERYTHING (but events) — these three in the preferred version only."""
    if sel["by"] == "full":
        return (sel["group"], sel["version"], sel["plural"]) == (r["group"], r["version"], r["plural"])
    if not r.get("preferred", True):
        return False
    if sel["by"] == "name":
        return sel["value"] in (r["plural"], r["kind"], r["kind"].lower(), *r.get("shortcuts", []))
    if sel["by"] == "category":
        return sel["value"] in r.get("categories", [])
    return not (r["plural"] == "events" and r["group"] in ("", "events.k8s.io"))


def oracle_pure_res(case: dict, r: dict) -> list[tuple[str, dict]]:
    """Of the watched resources exactly those stay served that can be listed and watched and — if a handler that stores its
    state on the object (daemon, timer, on.create/update/delete/resume) accepts them — patched; whatever the OTHER
    resources and their handlers are. Skipped when a core-group resource is watchable but not patchable (no Kubernetes
    core API has one; `Selector.select`'s core priority then leaks into the patch check: core_priority_residue_witness)."""
    by_id = {(x["group"], x["version"], x["plural"]): x for x in case["resources"]}
    before = [by_id[tuple(i)] for i in r["before"]]
    if any(x["group"] == "" and "list" in x["verbs"] and "watch" in x["verbs"] and "patch" not in x["verbs"] for x in before):
        return []
    patching = [h["sel"] for h in case["handlers"] if KIND_CLASS[h["kind"]] in ("spawning", "changing")]
    want = sorted([x["group"], x["version"], x["plural"]] for x in before
                  if "list" in x["verbs"] and "watch" in x["verbs"]
                  and ("patch" in x["verbs"] or not any(_accepts(s, x) for s in patching)))
    got = sorted(r["after"])
    if got == want:
        return []
    missing = [by_id[tuple(i)] for i in want if i not in got]
    if missing and not [i for i in got if i not in want] and all("patch" not in x["verbs"] for x in missing):
        return [(f"{[x['plural'] + '.' + x['group'] for x in missing]} can be listed and watched, no daemon/timer/changing handler selects them, "
                 f"and they are not served: served {got}, suitable {want}", F10_SIG)]
    return [(f"served resources {got} != the suitable ones among the watched {want}", GENERIC_RES_SIG)]


def eval_pure_res(case: dict) -> dict:
    from . import sim_c19
    try:
        r = sim_c19.run_pure_res(case)
    except Exception as e:  # noqa: BLE001 — the observer would die of it
        return {"fails": [(f"revise_resources raised {type(e).__name__}: {e}",
                           {"site": "observation.revise_resources", "shape": "exception out of revise_resources"})],
                "req": None, "impl": None, "passed_ok": True, "shape": ["raised", type(e).__name__], "hist": {}, "offcontract": False,
                "nontrivial": True}
    fails = oracle_pure_res(case, r)
    by_id = {(x["group"], x["version"], x["plural"]): x for x in case["resources"]}
    order = sorted(by_id)
    num = {k: i + 1 for i, k in enumerate(order)}
    before = [tuple(i) for i in r["before"]]
    rs = [[num[k], k[0] == "", "list" in by_id[k]["verbs"], "watch" in by_id[k]["verbs"], "patch" in by_id[k]["verbs"]] for k in before]
    hs = [[KIND_CLASS[h["kind"]], sp, sorted(num[tuple(i)] for i in chk if tuple(i) in before)]
          for h, sp, chk in zip(case["handlers"], r["specific"], r["checks"])]
    # the registries that reached the call are the patching ones (read off the call itself, beside the AST tie)
    passed_ok = all(p == (KIND_CLASS[h["kind"]] in ("spawning", "changing")) or
                    any(h2["sel"] == h["sel"] and KIND_CLASS[h2["kind"]] in ("spawning", "changing") for h2 in case["handlers"])
                    for h, p in zip(case["handlers"], r["passed"]))
    impl = sorted(num[tuple(i)] for i in r["after"])
    dropped = [k for k in before if list(k) not in r["after"]]
    ro = [k for k in before if "patch" not in by_id[k]["verbs"] and "list" in by_id[k]["verbs"] and "watch" in by_id[k]["verbs"]]
    return {"fails": fails, "req": ["C19.served", rs, hs], "impl": impl, "passed_ok": passed_ok, "shape": [rs, hs, impl],
            "hist": {"watched": len(before), "dropped": len(dropped), "read-only watched": len(ro),
                     "read-only served": len([k for k in ro if list(k) in r["after"]]),
                     "read-only dropped": len([k for k in ro if list(k) not in r["after"]])},
            "offcontract": any(k[0] == "" for k in ro),
            "nontrivial": bool(dropped) or bool(ro)}


# =============================================================================================
# the check
# =============================================================================================
def _work(item: tuple) -> dict:
    kind, case = item
    try:
        if kind == "stream":
            out = eval_stream(case)
        elif kind == "adjust":
            out = eval_adjust(case)
        elif kind == "purens":
            out = eval_pure_ns(case)
        elif kind == "pureres":
            out = eval_pure_res(case)
        else:
            out = eval_operator(case)
    except Exception as e:  # noqa: BLE001
        import traceback
        return {"kind": kind, "case": case, "harness_error": f"{type(e).__name__}: {e}", "tb": traceback.format_exc()[-2000:]}
    out["kind"] = kind
    out["case"] = case
    return out


def _run_items(items: list[tuple], jobs: int) -> list[dict]:
    if jobs <= 1 or len(items) < 8:
        return [_work(it) for it in items]
    import multiprocessing
    chunk = max(1, min(50, len(items) // (jobs * 4)))
    try:
        with ProcessPoolExecutor(max_workers=jobs, mp_context=multiprocessing.get_context("fork")) as ex:
            return list(ex.map(_work, items, chunksize=chunk))
    except BrokenProcessPool as e:
        raise RuntimeError(f"a simulation worker died (stall watchdog or crash): {e}") from e


def _corpus_items() -> list[tuple[str, tuple]]:
    items = []
    for name, data in load_corpus(ID):
        for case in data.get("cases", []):
            items.append((name, (case["kind"], case["case"])))
    return items


def absorb(ctx: Ctx, res: dict, source: str, pending: dict) -> None:
    kind, case = res["kind"], res["case"]
    if "harness_error" in res:
        raise RuntimeError(f"harness error in a {kind} case: {res['harness_error']}\n{res.get('tb', '')}")
    if "sim_error" in res:
        raise RuntimeError(f"the simulation of a {kind} case stalled or deadlocked (harness problem, not a verdict): "
                           f"{res['sim_error']}; case={json.dumps(case)[:1500]}")
    ctx.traces += 1
    for what, sig in res["fails"]:
        ctx.oracle_fail(what, {"kind": kind, "case": case, "source": source}, sig)
        ctx.count("oracle", sig.get("shape", "?"))
    if kind == "stream":
        key = json.dumps(res["shape"])
        ctx.case(key=key, nontrivial=res["nontrivial"],
                 sample={"script": case, "acts": res["acts"][:40], "outs": res["outs"][:40]} if res["nontrivial"] else None)
        for k, v in res["hist"].items():
            ctx.count("acts", k, v)
        ctx.count("rv_start", "below a power of ten" if case.get("rv0") is not None else "default (102)")
        ctx.count("stream_end", "raised" if res["exc"] else "paused" if res["paused_at_end"] else "streaming")
        ctx.count("http_attempts", "total", res["attempts"])
        if res["anomalies"]:
            ctx.count("stream_tie", "skipped: same-instant ambiguity")
            return
        ctx.count("stream_tie", "compared")
        pending["reqs"].append(["C19.run", res["srv0"], res["acts"]])
        pending["impl"].append({"outs": res["outs"], "failed": res["exc"] is not None})
        pending["where"].append({"kind": kind, "case": case})
    elif kind == "adjust":
        ctx.case(key=json.dumps(res["impl"]), nontrivial=res["nontrivial"],
                 sample={"history": case, "keys": res["impl"]} if res["nontrivial"] else None)
        ctx.count("histories", "clusterwide" if case.get("clusterwide") else "namespaced")
        ctx.count("histories", "steps", len(case["steps"]))
        ctx.count("histories", "die-steps", sum(1 for st in case["steps"] if "die" in st))
        pending["reqs"].append(["C19.adjust", res["req"]])
        pending["impl"].append({"rows": [sorted(([k, n] for k, n in row), key=lambda x: (x[0][0], str(x[0][1]))) for row in res["impl"]]})
        pending["where"].append({"kind": kind, "case": case})
    elif kind == "purens":
        ctx.case(key=json.dumps(res["shape"]), nontrivial=res["nontrivial"],
                 sample={"case": case, "insights.namespaces": res["impl"]} if res["nontrivial"] else None)
        for k, v in res["hist"].items():
            ctx.count("pure_ns_items", k, v)
        ctx.count("pure_ns", "a namespace Terminating with content remaining at first sight" if res["first_sight_blocked"] else "other")
        if res["mute"]:
            ctx.count("pure_ns", "with a DELETED event that still carries a True condition (off contract: tie only)")
        if res["req"] is not None:
            pending["reqs"].append(res["req"])
            pending["impl"].append({"after": res["impl"]})
            pending["where"].append({"kind": kind, "case": case})
    elif kind == "pureres":
        ctx.case(key=json.dumps(res["shape"]), nontrivial=res["nontrivial"],
                 sample={"case": case, "served": res["impl"]} if res["nontrivial"] else None)
        for k, v in res["hist"].items():
            ctx.count("pure_res", k, v)
        for h in case["handlers"]:
            ctx.count("pure_res_handlers", h["kind"] + " by " + h["sel"]["by"])
        if res["offcontract"]:
            ctx.count("pure_res", "cases with a read-only core-group resource (off contract: tie only)")
        if not res["passed_ok"]:
            ctx.tie_fail("the selectors handed to _disable_unsuitable_resources are not those of the daemons/timers/changing handlers",
                         {"kind": kind, "case": case})
        if res["req"] is not None:
            pending["reqs"].append(res["req"])
            pending["impl"].append({"served": res["impl"]})
            pending["where"].append({"kind": kind, "case": case})
    else:
        ctx.case(key=json.dumps(res["shape"]), nontrivial=bool(res["churn"]),
                 sample={"scenario": case, "checkpoints": res["shape"]} if res["churn"] else None)
        for c in res["churn"]:
            ctx.count("operator_churn", c)
        if case.get("heal"):
            ctx.count("heal_runs", "exit: " + case["how"])
            for o in case["timeline"]:
                if o[1] in ("touch_crd", "touch_ns"):
                    ctx.count("heal_runs", "afterwards: " + o[1])
            ctx.count("heal_runs", "HTTP 404 answered to a watcher" if res.get("n404") else "no watcher met a 404")
            ctx.count("heal_runs", "revisions that left the insights as they were", res.get("noop_revisions", 0))
        if case.get("establish"):
            ctx.count("establish_runs", "CRD events lagging" if case.get("meta_lag") else "CRD events prompt")
            ctx.count("establish_runs", "CRDs stored but not established at start-up", len(case.get("initial_crds") or []))
            at = {}
            for o in sorted(case["timeline"], key=lambda x: x[0]):
                if o[1] == "add_crd":
                    at[o[2]] = o[0]
                elif o[1] == "establish" and o[2] in at:
                    ctx.count("establish_delay_s", str(round(o[0] - at.pop(o[2]), 4)))
                elif o[1] == "touch_crd":
                    ctx.count("establish_runs", "afterwards: touch_crd " + (o[3] if len(o) > 3 else "spec"))
            ctx.count("establish_runs", "kinds that became served at runtime", res.get("appearances", 0))
        ctx.count("operator_runs", "establish" if case.get("establish") else "heal" if case.get("heal") else "rapid" if case.get("rapid") else "meta" if case.get("meta") else "crdedit" if case.get("crdedit") else
                  "pause" if case.get("pauseop") else "nsterm" if case.get("nsterm") else "restricted:" + str(case["restricted"]) if case.get("restricted") else
                  "kinds" if case.get("kinds") else "churn")
        ctx.count("operator_patterns", json.dumps(case.get("patterns")))
        for eh in case.get("extra_handlers", []):
            ctx.count("operator_handler_kinds", eh["kind"])
        for p, v in (case.get("verbs") or {}).items():
            ctx.count("operator_verbs", "no-patch" if "patch" not in v else "no-watch" if "watch" not in v else "no-list")
        if case.get("initial_terminating"):
            ctx.count("operator_runs", "namespace Terminating at start-up")
        if res.get("orchreq") is not None:
            pending["reqs"].append(res["orchreq"])
            pending["impl"].append({"enabled": True, "keys_after_each_pass": res["orchimpl"]})
            pending["where"].append({"kind": kind, "case": case})
            ctx.count("orchestrator_tie", "labels", len(res["orchreq"][1]))
            for l in res["orchreq"][1]:
                ctx.count("orchestrator_labels", l[0])
        if res.get("orchendreq") is not None:
            pending["reqs"].append(res["orchendreq"])
            pending["impl"].append({"orchestrator_at_rest": "waiting"})
            pending["where"].append({"kind": kind, "case": case})
            ctx.count("orchestrator_tie", "runs compared at rest (no wake-up owed)")
        if res.get("crdreq") is not None:
            pending["reqs"].append(res["crdreq"])
            pending["impl"].append({"after": res["crdimpl"]})
            pending["where"].append({"kind": kind, "case": case})
            ctx.count("crd_insights_tie", "fed items", len(res["crdimpl"]))
            for it in res["crdreq"][2]:
                ctx.count("crd_insights_items", it[0])
        if res.get("nsreq") is not None:
            pending["reqs"].append(res["nsreq"])
            pending["impl"].append({"after": res["nsimpl"]})
            pending["where"].append({"kind": kind, "case": case})
            ctx.count("insights_tie", "fed items", len(res["nsimpl"]))
        if res.get("nsreq2") is not None:
            pending["reqs"].append(res["nsreq2"])
            pending["impl"].append({"after": res["nsimpl2"]})
            pending["where"].append({"kind": kind, "case": case})
            ctx.count("insights_tie", "fed items (revise model, with Terminating marks)", len(res["nsimpl2"]))
            for e in res["nsreq2"][3]:
                ctx.count("insights_marks", e[2])
        ctx.count("operator_runs", "checkpoints", res["checkpoints"])
        ctx.count("operator_runs", "watch_requests", res["watch_requests"])


def compare_with_model(ctx: Ctx, pending: dict) -> None:
    if not pending["reqs"]:
        return
    try:
        outs = ctx.driver.ask(pending["reqs"])
    except leanio.LeanError as e:
        ctx.tie_fail(f"Lean driver failed: {e}", {"log": e.log})
        return
    for req, impl, out, wh in zip(pending["reqs"], pending["impl"], outs, pending["where"]):
        if not out or out[0] != "ok":
            ctx.tie_fail("the driver rejected a case", {"request": req[:2], "answer": out, **wh})
            continue
        if req[0] == "C19.orch":
            labels = req[1]
            enabled = "disabled" not in out[1]
            keys = [sorted(([k[0], k[1]] for k in row), key=str) for l, row in zip(labels, out[1]) if l[0] == "spawnAll" and row != "disabled"]
            ctx.compare("C19 orchestrator protocol (label trace accepted, keys after each pass)", impl,
                        {"enabled": enabled, "keys_after_each_pass": keys}, wh)
        elif req[0] == "C19.orchEnd":
            ctx.compare("C19 orchestrator at rest (every revision of the insights was followed by a pass)", impl,
                        {"orchestrator_at_rest": out[1]}, wh)
        elif req[0] == "C19.crdfold":
            ctx.compare("C19 resource insights (CRD observer feed → insights.watched_resources)", impl,
                        {"after": [sorted(row) for row in out[1]]}, wh)
        elif req[0] == "C19.nsfold":
            ctx.compare("C19 namespace insights (observer feed → insights.namespaces)", impl, {"after": out[1]}, wh)
        elif req[0] == "C19.nsrevise":
            ctx.compare("C19 namespace insights (revise_namespaces with Terminating namespaces)", impl, {"after": out[1]}, wh)
        elif req[0] == "C19.served":
            ctx.compare("C19 served resources (revise_resources → _disable_unsuitable_resources)", impl, {"served": out[1]}, wh)
        elif req[0] == "C19.run":
            model = {"outs": [_canon_outs(o) for o in out[1]["outs"]], "failed": out[1]["phase"] == "failed"}
            ctx.compare("C19 watch-stream (acts → requests/yields)", impl, model, wh)
        else:
            model = {"rows": [sorted(row, key=lambda x: (x[0][0], str(x[0][1]))) for row in out[1]]}
            ctx.compare("C19 adjust_tasks (insights → watcher keys)", impl, model, wh)


def run(ctx: Ctx) -> None:
    jobs = int(os.environ.get("VERIF_JOBS", "0")) or min(16, os.cpu_count() or 4)
    rng = ctx.rng
    base = ctx.seed * 1_000_000
    items: list[tuple] = []
    sources: list[str] = []
    for name, it in _corpus_items():
        items.append(it)
        sources.append(f"corpus/{name}")
    n_stream = ctx.budget(400, 30000)
    n_adjust = ctx.budget(300, 8000)
    n_oper = ctx.budget(12, 400)
    for i in range(n_stream):
        items.append(("stream", gen_script(rng, base + i)))
        sources.append("generated")
    for i in range(n_adjust):
        items.append(("adjust", gen_history(rng, base + i)))
        sources.append("generated")
    for i in range(n_oper):
        items.append(("operator", gen_operator(rng, base + i)))
        sources.append("generated")
    n_rapid = ctx.budget(60, 1500)
    for i in range(n_rapid):
        items.append(("operator", gen_rapid(rng, base + i)))
        sources.append("generated")
    ctx.count("cases", "operator-rapid", n_rapid)
    n_crd = ctx.budget(40, 800)
    for i in range(n_crd):
        items.append(("operator", gen_crdedit(rng, base + i)))
        sources.append("generated")
    ctx.count("cases", "operator-crdedit", n_crd)
    n_meta = ctx.budget(60, 1500)
    for i in range(n_meta):
        items.append(("operator", gen_meta(rng, base + i)))
        sources.append("generated")
    ctx.count("cases", "operator-meta", n_meta)
    for tag, gen, n in (("heal", gen_heal, ctx.budget(90, 1500)), ("establish", gen_establish, ctx.budget(70, 1500)),
                        ("pause", gen_pauseop, ctx.budget(60, 800)), ("nsterm", gen_nsterm, ctx.budget(60, 800)),
                        ("restricted", gen_restricted, ctx.budget(30, 400)), ("kinds", gen_kinds, ctx.budget(80, 1000))):
        for i in range(n):
            items.append(("operator", gen(rng, base + i)))
            sources.append("generated")
        ctx.count("cases", "operator-" + tag, n)
    n_pns, n_pres = ctx.budget(1500, 30000), ctx.budget(1500, 30000)
    for i in range(n_pns):
        items.append(("purens", gen_pure_ns(rng, base + i)))
        sources.append("generated")
    for i in range(n_pres):
        items.append(("pureres", gen_pure_res(rng, base + i)))
        sources.append("generated")
    ctx.count("cases", "pure revise_namespaces", n_pns)
    ctx.count("cases", "pure revise_resources", n_pres)
    ctx.count("cases", "stream", n_stream)
    ctx.count("cases", "adjust", n_adjust)
    ctx.count("cases", "operator", n_oper)
    ctx.count("cases", "corpus", len(_corpus_items()))
    results = _run_items(items, jobs)
    pending: dict = {"reqs": [], "impl": [], "where": []}
    for res, src in zip(results, sources):
        absorb(ctx, res, src, pending)
    compare_with_model(ctx, pending)


def search(ctx: Ctx, broken: list) -> None:
    """A proof/tie is broken and the oracle saw nothing: 10x the scripts, oracle only, the diverging cases first."""
    jobs = int(os.environ.get("VERIF_JOBS", "0")) or min(16, os.cpu_count() or 4)
    items: list[tuple] = []
    for b in broken[:20]:
        rep = b.replay if isinstance(b.replay, dict) else {}
        inp = rep.get("input") or rep
        if isinstance(inp, dict) and "kind" in inp and "case" in inp:
            items.append((inp["kind"], inp["case"]))
    rng = random.Random(f"C19-search-{ctx.seed}")
    for i in range(ctx.budget(4000, 60000)):
        items.append(("stream", gen_script(rng, 7_000_000 + i)))
    for i in range(ctx.budget(2000, 20000)):
        items.append(("adjust", gen_history(rng, 7_000_000 + i)))
    for i in range(ctx.budget(6000, 60000)):
        items.append(("purens", gen_pure_ns(rng, 7_000_000 + i)))
        items.append(("pureres", gen_pure_res(rng, 7_000_000 + i)))
    for gen in (gen_heal, gen_establish, gen_rapid, gen_pauseop, gen_nsterm, gen_restricted, gen_kinds, gen_operator):
        for i in range(ctx.budget(100, 1000)):
            items.append(("operator", gen(rng, 7_000_000 + i)))
    open_sigs = [F3_SIG, F5_SIG, F6_SIG, F7_SIG, F8_SIG]
    for res in _run_items(items, jobs):
        for what, sig in res.get("fails", []):
            if sig not in open_sigs:
                ctx.oracle_fail(what, {"kind": res["kind"], "case": res["case"], "source": "search"}, sig)
                return


def replay(ctx: Ctx, data: dict) -> None:
    rep = data.get("replay", data)
    cases = [rep] if "kind" in rep else rep.get("cases", [])
    if "input" in rep and isinstance(rep["input"], dict) and "kind" in rep["input"]:
        cases = [rep["input"]]
    for c in cases:
        res = _work((c["kind"], c["case"]))
        if "harness_error" in res:
            raise RuntimeError(res["harness_error"])
        for what, sig in res.get("fails", []):
            ctx.oracle_fail(what, {"kind": c["kind"], "case": c["case"]}, sig)
