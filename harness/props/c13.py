"""C13 — peering: lower-priority operators pause, exactly the top one is active, also after exits/kills.

Proof: lean/Kopf/Props/C13.lean over lean/Kopf/Model/C13_Peering.lean (`decideEv` = one call of
`process_peering_event` on any status content; `step` = the shared peering object - status and version - + any number of
operators as a labelled transition system, with the conditional clean of 054d47d and the stop order of 26a293c;
`kaSleep`/`touchVal` = keep-alive arithmetic and what `touch()` writes).
Tie (S): every call of the REAL `process_peering_event` — thousands of direct calls on generated status
contents (incl. garbled ones, exact-deadline clocks, API latency inside the call, interrupted sleeps) and every
call observed inside multi-operator simulations — is replayed through `decideEv`: same cleaned peers, same
toggle action and state, same delays, same sleep, same self-touch. (D, exhaustive) the real `keepalive`
period for lifetimes 0..130 x jitter 5..10 and the real `touch` payload against `kaSleep`/`touchVal`.
(S) every write to the peering object through `Status.patch`, every call that cleans as one `deliverStale` step
(view, its resourceVersion, the object and its resourceVersion when the PATCH arrived): applied / refused, resulting status, toggle.
Multi-operator simulations: 2-4 REAL `kopf.operator()`s on one fake cluster with a ClusterKopfPeering,
scripted starts / graceful stops / kills / restarts, foreign records, per-operator delivery delays.
12% of the histories make ONE peering PATCH of one operator (n-th keep-alive / self-touch / clean / withdrawal) 1/16..3 s slower on its
way to the server than the requests around it and stop / kill that operator while it is in flight or just after (`with_slow`).
15% of the histories carry an API FAULT at one point of the peering protocol of one operator (`with_faults`): the n-th regular
keep-alive, the self-touch of a process_peering_event call, a clean(), the withdrawal - refused with a status the client does not
retry, failing beyond the client's back-offs or only once, a connection error before/after the write, a timeout.
Oracle (independent of Lean, over virtual time): see `oracle_history` and `direct_oracle`.
"""
from __future__ import annotations

import bisect
import functools
import random
import datetime
import json
from typing import Any

from .. import leanio
from ..core import Ctx, load_corpus
from . import sim_c13

ID = "C13"
LEVEL = "proof"
ENGINES = ["lean-model", "purediff", "kopfsim"]
# LEVEL is the schema enum; STRENGTH says how much of the property the theorems carry: "partial" because the "exactly the top one
# ends up active" clauses still carry one guard (the LAST view each operator processes has the verdict of the current status: the
# residue of F4, a wrong verdict from an old view), inevitability of cleanup is FALSE of the code (F10), and the pause effects rest
# on the simulation oracle alone.
STRENGTH = "partial"
TIE = ("S: every call of the real process_peering_event (direct calls on generated status contents + all calls inside "
       "multi-operator simulations) replayed through the Lean `decideEv`; D exhaustive for keepalive period / touch payload; "
       "S on the transition system: every write to the peering object in the simulations replayed through `Status.patch` "
       "(C13.write); every call that cleans replayed as ONE `deliverStale` step (C13.stale) on (the view and ITS resourceVersion, "
       "the object and ITS resourceVersion at the moment the PATCH reached the server): same applied/refused (409), same resulting "
       "status, same toggle; a view that names the current version but is not the current content is not enabled in the model = a "
       "tie failure ('a version identifies a content'); that clean() names the resourceVersion of the judged event is compared per "
       "call; counter lts.stale_view says how the real staleness is distributed (current / older+same verdict / older+verdict differs). "
       "The Lean witnesses of the open findings F4 (residue), F10 are run through the driver (C13.run) and their claim compared with "
       "the replay of the same scenario on the real code. S on the in-flight layer (C13_KaFlight.kstep, driver op C13.kaflight): every "
       "history that carries a slow request (generated `with_slow` + corpus stop_during_slow_keepalive_*; no faults, distinct "
       "identities - else skipped and counted) is abstracted into ONE label list - every regular keep-alive PATCH = kaIssue at its "
       "send time + kaLand when the server applies it (no label when it never arrives: cancelled by its client, sender killed), stop "
       "request = exitBegin, landing of the withdrawal = exitEnd, kill, tick; every other write to the peering object (self-touches, "
       "applied cleans, pre-set status) as `foreign` with its real content - and after EVERY label the record of every identity on the "
       "real server and the stamp of every keep-alive really on the wire (sent, not applied, not cancelled by its client: cancellation "
       "logged at the request) are compared with the state `kstep` reaches (a label the model does not enable = mismatch); between "
       "the cancellation of the pinger and the landing of the withdrawal (one model step `exitEnd`) the in-flight flag of that one "
       "identity is not compared, its record is (counters lts.kaflight*). NOT tied by a whole-history label list: the "
       "labels wake/wakeIssue/land/sleeping, deliver (in the kaflight lists their writes are `foreign`), exit, exitLost, keepaliveFail (the "
       "failed keep-alive: held by the oracle clauses C/T/X/Y on histories with injected API faults), exitBegin/exitEnd/kill OUTSIDE "
       "the histories with a slow request and their effect on paused/sleeping/exiting anywhere (kaflight compares records and "
       "requests in flight only), the named variant kstepShield (a witness about a seeded change, not the code), and the "
       "ghost nextKA/Allowed; for these the "
       "simulation oracle is the only link to the code (the stop ORDER of 26a293c is held by the oracle clauses D/H and the "
       "regressions F7, F9, exit_handler_ignores_cancel)")
LEVEL_TEXT = ("Lean theorems, STRENGTH partial. FULL (no guard): per call, all status contents: foreign_object_ignored (an event of "
              "another peering object does nothing), paused_iff, turned_iff, dead_cleaned, "
              "wake_at_deadline; arithmetic keepalive_period, renewal, renewal_lifetime_one. FULL, for EVERY view and EVERY label list "
              "(new with 054d47d - F4's lasting half and F5 were the negation): stale_clean_refused (a clean from an older version "
              "changes nothing), clean_removes_only_dead (what a clean removes is dead in the CURRENT status and somebody else's), "
              "live_record_kept (a live record stays until its owner or a foreign writer under its name replaces it, whatever the "
              "others do); restart_stale_view_record_kept (F5's schedule: the fresh record survives). FULL (new with 26a293c - F7, F9 "
              "were the negation): withdraw_on_exit, withdrawn_stays, withdrawn_stays_from (the 'no self-touch in flight' guard is "
              "gone: the observer is stopped before the pinger; selftouch_before_withdrawal = F9's schedule), exit_two_phase, "
              "exiting_operator_still_blocks (in the exit window the record is renewed and everybody it outranks stays paused). "
              "FULL (seeded change C13e was the negation): failed_keepalive_stops (an operator whose keep-alive failed for good - "
              "label keepaliveFail: touch() raised in keepalive(), the task ended, the orchestrator was cancelled - is never again a "
              "running operator that is not on its way out, through ANY label list; it takes no more verdicts), "
              "failed_keepalive_withdraws (the record is gone at once when the finally's withdrawal lands; the stop can complete); "
              "the seeded variant as a named step function (stepSwallow: the error is swallowed, the next attempt a period later): "
              "swallowed_keepalive_two_active_witness (lifetime 60: the record expires at 60 s, the lower one resumes, both running "
              "and active, the top one without a record - and what the code's step does on the same labels); "
              "failstop_withdraws_before_handling_stops_witness (finding F11: the record goes before the handling has stopped). "
              "FULL (seeded change C13f was the negation; layer Model/C13_KaFlight.lean over `step`: the regular keep-alive as a request "
              "in flight, kaIssue .. kaLand): withdrawn_stays_keepalive_in_flight (the stop of the pinger cancels the request it awaits "
              "before the withdrawal is sent: from the withdrawal on the record never comes back, through ANY labels of anybody); the "
              "seeded variant as a named step function (kstepShield: the request survives the stop): shielded_keepalive_returns_witness "
              "(lifetime 60: the keep-alive sent at 55 s lands after the withdrawal, the record is back until 115 s, the lower one stays "
              "paused, nobody is active - and that the same labels are not a run of the code's step). "
              "own_record_fresh: guard Timely only (every touch() <= B ticks, 2B < min(5, L-1) s resp. 1/2 s for L = 1, nobody writes "
              "under an operator's identity) - the guards 'old views only if benign' and 'proper exit order' are gone: views of any "
              "age, two-step stops. stale_same_verdict: an older view with the verdict of the current status sets the operator's "
              "entry as the current status would. PARTIAL, one guard left = the residue of F4 (a VERDICT from an old view is the old "
              "verdict): exactly_top_partial, at_most_one_active_partial (Stable: every running operator's last view had the verdict "
              "of the current status; what the view would clean no longer matters), equal_priority_both_paused_partial; "
              "settle_partial, failover_exit_partial (now over the two-step stop with anything Quiet in the exit window), "
              "failover_after_loss_partial, failover_after_loss_timely_partial: ANY interleaving of time, keep-alives, waking "
              "self-touches and deliveries of views of ANY age (Quiet now contains deliverStale), own records fresh (`hown`: what "
              "own_record_fresh gives for timely runs) => after every running operator has processed the CURRENT status exactly the "
              "top one is active. Outside the guard: stale_verdict_two_active_witness (replayed on the real code: F4.json - two "
              "active for as long as events are later than a keep-alive margin; nothing deleted). POSSIBILITY only: "
              "resume_after_expiry, convergence_possible, cleanup_possible (a reader of the CURRENT version removes every dead record "
              "of others); cleanup is NOT inevitable any more: cleanup_starved_witness (F10, replayed: F10.json). NO theorem, simulation "
              "oracle only: the pause effects (watch streams closed, daemons stopped, no handling beyond queued events, nothing "
              "handled twice - also across operators: clause H), clause G2 (the last change of an object is not held back for ever "
              "once an operator is active: 3cc60e3 drops the stale event, the re-listing brings the state), inevitability of resume "
              "/ convergence, API failures inside a call. The model is hand-written; see TIE for what is and is not compared.")
THEOREMS = [("Kopf.Props.C13", "Kopf.C13." + n) for n in [
    "foreign_object_ignored", "paused_iff", "turned_iff", "dead_cleaned", "wake_at_deadline",
    "stale_clean_refused", "clean_removes_only_dead", "live_record_kept", "stale_same_verdict",
    "exactly_top_partial", "at_most_one_active_partial", "equal_priority_both_paused_partial",
    "stale_verdict_two_active_witness", "restart_stale_view_record_kept",
    "exit_two_phase", "exiting_operator_still_blocks",
    "settle_partial", "failover_exit_partial", "failover_after_loss_partial", "failover_after_loss_timely_partial",
    "resume_after_expiry", "convergence_possible", "cleanup_possible", "cleanup_starved_witness",
    "keepalive_period", "renewal", "renewal_lifetime_one", "own_record_fresh",
    "withdraw_on_exit", "withdrawn_stays_from", "withdrawn_stays", "selftouch_before_withdrawal",
    "failed_keepalive_stops", "failed_keepalive_withdraws", "swallowed_keepalive_two_active_witness",
    "failstop_withdraws_before_handling_stops_witness",
    "withdrawn_stays_keepalive_in_flight", "shielded_keepalive_returns_witness"]]
RULE = ("(1) direct calls: status of 0-5 records over a small identity pool (own record in/out), priority around the own one / "
        "missing / garbled, lifetime ints incl. 0,1,negative / numeric strings / garbage / missing, lastseen placed exactly on the "
        "deadline and +-1 tick / far past / future / missing / null / unparsable / naive & Z formats, unknown keys, non-mapping "
        "entries, non-mapping status, foreign object name; toggle on/off/none, API latency 0..64 ticks inside the call, sleep "
        "interrupted or not. (2) keepalive: lifetimes 0..130 x jitter 5..10 exhaustively, touch payloads. (3) histories: 2-4 "
        "operators with distinct (20%: clashing) priorities, lifetimes 1..60 s, scripted starts/stops/kills/restarts, edits of a "
        "handled object with create/update handlers and a daemon, foreign records (dead, live high/low, unknown fields, missing "
        "lifetime), per-operator peering-event delivery delays (12%: later than some keep-alive margin = the late regime, judged "
        "only by the checks that do not presume timely delivery), 25% restarts under the same identity, 30%: handlers that take "
        "0.5-3 s (so that a handler overlaps a pause, a stop or a failover; in those the top operator is also stopped shortly after "
        "an edit), 10%: API responses delayed after the write is applied, stops during the first keep-alive, 15%: a waiting operator "
        "is asked to stop at the very tick its sleep towards a blocker's deadline ends (self-touch and withdrawal in flight "
        "together; own random stream derived from the history's seed), 5% (same own stream): churn - everybody lifetime 2 and "
        "peering events 0.5-0.75 s late (inside the margin) + a dead foreign record (F10); third own stream (white-box round): 20% "
        "namespaced operators peering through the KopfPeering of their namespace, 40% daemons that end only when CANCELLED, 50% a "
        "timer (0.5-2 s), 20% another peering object of the same kind beside the own one (a name that begins/ends like it; a live "
        "top-priority record without lastseen and a dead one in it), half of the foreign records stamped in a local time (UTC "
        "offsets +02:00, -05:30, +05:45, -01:00); fourth own stream: 15% of the histories carry an injected API FAULT on the peering "
        "PATCHes of one operator (55% its n-th regular keep-alive, n = 2, 3, rarely 1; 15% each: the self-touch of a waiting call, a "
        "clean(), the withdrawal of a graceful stop): a status the client does not retry (409, 422, 400), a retried one (500, 503, 429) "
        "on one or two attempts or on all four (beyond settings.networking.error_backoffs: the error escapes), a connection error "
        "before / after the server applied the write (x1, x4), a timeout (x1, x4; request_timeout 2 s); the faulted operator's "
        "lifetime from 2..60 s (half above 20 s: there one skipped renewal round outlives the record), back-offs (1, 1, 2) or "
        "(0.25, 0.5, 0.5), handlers of 0 / 0.5 / 1.5 s; the timeline is built so that the faulted request happens and its "
        "consequences (expiry, take-over) fit in; histogram history.api_faults. Fifth own stream (round C13f): 12% of the histories "
        "(not those with faults) have ONE SLOW REQUEST: one peering PATCH of one operator (58% its n-th regular keep-alive, n = 2, 3, "
        "1; 17% the self-touch of a waiting call; 8% a clean(); 17% the withdrawal) reaches the server 1/16, 1/4, 1/2, 1, 2 or 3 s later "
        "than any other request (inside the 5 s keep-alive margin: lifetimes 8..60 s) - requests of one client then ARRIVE in another "
        "order than they were sent -, and the operator is asked to stop while it is in flight (55%: 1/64 s after it was sent, 2/64, "
        "half-way, one tick before it arrives), right after it has arrived (10%), killed in flight (10%), or not at all; histograms "
        "history.slow_request, history.slow_request_delay. Direct calls: 30% of the lastseen values in a local time; events of foreign "
        "objects named 'default-2', 'default.', 'xdefault', 'defaul', 'Default', '' ...; half of the events carry a resourceVersion "
        "(the clean must name it). A case is one "
        "process_peering_event call (direct or simulated) "
        "or one keep-alive round or one write / stale-view step of the transition system; distinct & non-trivial = distinct abstracted (toggle-before, #dead, #prio, #same, own-record, "
        "error, sleep-kind, touch) tuples with a non-empty status.")
TRUSTED = ["harness/sim (virtual-time loop, fake API server incl. merge-patch of `status` and the 409 for a merge-patch that names another "
           "metadata.resourceVersion than the stored one - added to fakeapi.py for this property), harness/props/sim_c13.py "
           "(attribute-level observation of toggles / peering calls / handlers / watch requests; what a call cleans and whether it "
           "touches is read off the PATCH requests it issues - at the fake API in the histories, at peering.patching.patch_obj in the "
           "direct calls: requests before the call's sleep remove records, the one after an undisturbed sleep writes the own record - "
           "not off which helper of `peering` issued them)",
           "abstraction of a status: `lastseen` text -> ticks via iso8601 (kopf's own parser); everything else verbatim",
           "the keep-alive jitter (random.randint(5, 10) as seen from peering.keepalive) is drawn per operator incarnation from a "
           "stream derived from the history's seed, or pinned by the scenario (`jitters`), instead of the process-wide `random`",
           "fault injection of the histories (sim_c13._mk_fault on fakeapi's fault_rules): the CLASS of a peering PATCH by which a fault "
           "is aimed (keep-alive / self-touch / clean / withdrawal) is read off its payload (own record written, own record "
           "removed, others' records removed) and off whether it is issued inside a process_peering_event call; every faulted "
           "request is logged with its issue and answer time (`fault_hits`): the oracle's fault windows are built from that log",
           "slow requests of the histories (sim_c13 `slow_requests`: the fake API's latency of that ONE request is raised at the moment "
           "it is sent - logged then, a closed / dead session refuses it then; once sent it arrives after latency + delay whatever "
           "its client does meanwhile, except cancel it: a cancelled request never arrives); the class of the request as for the faults",
           "the C13.kaflight abstraction (c13.kaflight_case): sim_c13 `peer_patches` - every peering PATCH logged at the moment it is SENT "
           "(class as for the faults, payload, whether the session refused it at once) and the time a CancelledError reached the "
           "request itself (a request wrapped in asyncio.shield is not reached); a landing is matched to its request by sender, send "
           "time and payload; the real status after a label is the `after` of the last applied write (the chain before/after of the "
           "write log is checked to be gapless, else the history is skipped); the tear-down of a KILLED incarnation's tasks by the "
           "harness is not counted as a client cancelling its request (as in the model, the request stays on the wire: the simulation "
           "then never delivers it - the model's kaLand after a kill is never exercised by the tie); order of events of one tick: "
           "starts, applied writes in server order, sends / stop requests, kills",
           "the history oracle's settle window W = max delivery delay + 1 s (after a change of who is live, every operator must "
           "have reacted within W)"]
ASSUMPTIONS = ["one virtual clock shared by all operators (no clock skew between operators)",
               "running operators have pairwise distinct identities (kopf's default identity is unique per process; two processes started "
               "with one POD_ID at the same time never pause for each other - peer.identity != identity - and are not expressible in the "
               "model: `start` needs the identity not to be running); ONE cluster-wide peering object, mandatory peering (several "
               "peering objects / namespaces, whose toggles are OR-ed in `operator_paused`, are not generated)",
               "floats in peering records are not generated (the Lean JSON has integers only); settings.peering.lifetime is an int "
               "(a float like 1.5 is out of contract: it sleeps as 1.5 but advertises int(1.5))",
               "a record without `lastseen` is read as 'just seen' (what the code does); the oracle treats it as live",
               "histories use lifetimes >= 1 s and API latency 1/64 s",
               "LATENCY GUARD of renewal / own_record_fresh: every touch() call takes at most B with 2*B < min(5, lifetime-1) s "
               "(1/2 s for lifetime 1) and asyncio.sleep wakes on time; touch() goes through api.request's retry/backoff, so a single "
               "5xx/429 breaks the bound (C12's subject) - then the record may expire before it is renewed (generated since the C13e round: "
               "inside the fault window that is excused, after it the record must be renewed or the operator stopped)",
               "the `*_partial` theorems ask that the LAST view each running operator processes have the verdict of the current status; real "
               "calls nearly always see an older view (watch latency): how the cleaning calls of a run are distributed (current version / "
               "older, same verdict / older, verdict differs) is counted (lts.stale_view); F4's residue are the last ones",
               "MODEL OF THE VERSION: `ver` moves on EVERY write request to the peering object, also one that changes nothing (the real "
               "API keeps the resourceVersion then: a clean naming it is accepted - and removes what the current content holds, which is "
               "the judged content: the model's `deliver`); 'a version identifies a content' is built into `deliverStale` (a view naming "
               "the current version must be the current status) and checked per real call; a JSON object has unique keys: removing by "
               "identity = removing that record; the peering CRD has NO status subresource (kopf's peering.yaml, the fake cluster): with "
               "one, patch_obj() would send the version in a separate body PATCH and the status PATCH unconditionally (not checked)",
               "an operator that is finishing (between exitBegin and exitEnd) processes no further views in the model; in the code the "
               "observer's queue is worked off for <= queueing.exit_timeout: those calls' cleans are conditional like any other, their "
               "toggle no longer matters (the watchers are stopping); there is NO timeout on the stop itself: with a handler that never "
               "ends the withdrawal never comes (corpus exit_handler_ignores_cancel.json: 8 s; only ultimate_exiting_timeout - SIGKILL - "
               "and the record's expiry free the peers then) - the operator counts as running until its stop has completed",
               "the peering object itself stays: deleting the KopfPeering/ClusterKopfPeering object (or its CRD) while operators run is "
               "outside the quantifier of the property ('any set of operators, any order of starts/exits/kills, any delivery timing'); there "
               "touch() gets a 404 that is only logged, no event arrives any more and a paused operator stays paused until the object is "
               "re-created (audit N2, reproduced; recorded as an observation, not a finding - sim_c13 can do it: delete_peering/create_peering)",
               "a request that the client has CANCELLED is not applied by the server afterwards (the fake API drops it): the pinger's own "
               "keep-alive PATCH cancelled in flight by the stop cannot land after the withdrawal (the two are sequential in one task; "
               "GENERATED since the C13f round - a stop while a slow keep-alive is in flight - and held by the oracle clauses D/D2: "
               "whatever an operator sent before its withdrawal must not put the record back after it; Lean: "
               "withdrawn_stays_keepalive_in_flight; and tied label by label to the model's kstep on the same histories: C13.kaflight), "
               "and neither can a self-touch of the peering observer that was cancelled with it (`exitEnd` drops `inflight`); two requests "
               "that are both in flight are applied in either order - since 26a293c the self-touch and the withdrawal never are",
               "`wake` has no time guard in the model (it may fire before the deadline, with any lag outside Timely): resume_after_expiry "
               "says the sleeping call CAN wake, not that it does at the deadline; the oracle (B) checks the latter on the real code",
               "a lifetime outside timedelta's range or a deadline outside years 1..9999 makes Peer() raise OverflowError - every peer "
               "raises, as for a garbled record (modelled: `tdOk`/`dtOk`, relative to the simulation epoch 2030-01-01; generated in the "
               "direct calls incl. the last representable values; the oracle does not judge such records); a live blocker whose deadline "
               "is ~2.5e11 s away gives a delay that is off the tick grid as a float: that case is counted as offgrid-skipped",
               "records stamped in a local time (lastseen with a UTC offset other than +00:00) are generated (direct calls, foreign records "
               "of the histories) except together with a lifetime whose deadline lies within a day of the end/beginning of datetime's "
               "range: whether Peer() overflows there depends on the offset (aware datetimes are added in local time)",
               "an API error inside clean()/touch() of process_peering_event makes the call raise and (since 9ef1bcb) the operator stop: "
               "`deliver` cannot fail in the model (GENERATED since the C13e round: calls hit by an injected fault are not replayed "
               "through the model, the oracle judges what follows); likewise a garbled record (any theorem is silent on `= .error`): "
               "one malformed record written by anybody raises in every peer",
               "API FAULTS (injected by the scenario = the environment) and what the oracle makes of them. A FAULT WINDOW of an "
               "operator = from the issue of the first of consecutive faulted requests to the answer of the last + the time the code "
               "needs to notice (the longest back-off when the failure is of a retried kind - 5xx, 429, 403, connection error, "
               "timeout -, nothing otherwise; + 4 ticks for the withdrawal's round trip and the callbacks). INSIDE a window of its "
               "own-record requests an operator may run with an expired or missing record (no code can renew through a failing "
               "API) and a peer may be active beside it (+ W); AFTER it the operator must have renewed the record or no longer "
               "count as running (fail-stop: the keep-alive task has ended - clause X excuses exactly that failure, clause Y asks "
               "that the operator task really ends within 30 s): running with a dead/missing record = VIOLATION (clause C), two "
               "running operators both active for more than W + 1 s outside the windows = VIOLATION whatever the cause (clause T). "
               "NOT a violation: the record of an operator that is GONE staying until it expires because its withdrawal was "
               "refused too (clause D: only refusals by injected faults are excused); a dead record staying while the clean() "
               "naming it was answered by an injected fault (clause E); a call that retried a faulted request giving its verdict "
               "that much later (W grows by the longest such delay in that history). A record landing late because the client "
               "retried (the payload is stamped at the first attempt) is counted, not a tie failure. Open finding F11: on the "
               "fail-stop way out the record is withdrawn before the handling has stopped (clause H, own signature)",
               "the transition system starts operators pre-paused (mandatory peering, as in the simulations); with optional peering an "
               "operator is active until its first peering event",
               "ORACLE-ONLY clauses (no Lean theorem): paused => watch streams closed; daemons stopped - those that poll their stop flag "
               "and those that end only by cancellation (cancellation_timeout=1 s) - and timers not fired (grace 2 s); after W + 3 s of "
               "undisturbed activity the daemon of every served object runs again (clause R; not judged when a daemon was still on its way "
               "out at the un-pausing: kopf documents that case); a withdrawal that the API refuses on its merits (409/4xx, no injected "
               "fault) is the operator's failure, not the environment's; no change handling beyond events "
               "already queued; no handler executed twice because of the pause - within one operator and (clause H) across operators, "
               "an operator counting as running until its stop has COMPLETED; the last change of an object is handled once an operator "
               "has been active undisturbed for W + 1 + consistency_timeout + 1 s (clause G2); convergence / resume are inevitable (only "
               "possible: convergence_possible, resume_after_expiry); dead records are cleaned within max(1, lifetime-5) s + W (clause E, "
               "timely regime: FALSE under churn, F10); F3 (daemon killer), F6, F7, F8, F9 regressions"]

TPS = sim_c13.TPS
LAT = 1.0 / 64
# finding F10 (introduced by 054d47d): the conditional clean() starves while the peering object changes faster than views arrive
STARVED_CLEAN_SIG = {"site": "peering.clean", "shape": "dead record not cleaned: every clean() naming it is refused (409), the peering object changes faster than the readers' views arrive"}
# the residue of finding F4 (what 054d47d cannot repair): a VERDICT taken from an old view
STALE_VERDICT_SIG = {"site": "peering.process_peering_event", "shape": "a live peer judged dead from a view older than its keep-alive margin: the reader is active beside it until its next event", "regime": "late-delivery"}
# finding F11: on the fail-stop way out (the keep-alive task ends with an API error) the record is withdrawn BEFORE the handling stops
FAILSTOP_ORDER_SIG = {"site": "peering.keepalive", "shape": "fail-stop: the record is withdrawn by keepalive()'s finally before the orchestrator has stopped the handling; the successor handles a change the failing operator is still handling"}
EPOCH = datetime.datetime(2030, 1, 1, tzinfo=datetime.timezone.utc)


# =================================================================================================
# 1. direct calls of process_peering_event
IDS = ["me", "op-a", "op-b", "ghost", "dev@host/20300101000000/x1z", "ünï-ç"]
BAD_PRIO = ["10", "high", None, [1], {"a": 1}]
HUGE_LIFE = [10 ** 12, -10 ** 12, 10 ** 15, 86399999999999, 86400000000000, -86399999913600, -86399999913601,
             {"to_max": 0}, {"to_max": 0}, {"to_max": -1}, {"to_max": 1}, {"to_min": 0}, {"to_min": -1}, {"to_min": 1}]
FOREIGN_NAMES = ["other", "default-2", "default.", "defaultx", "xdefault", "defaul", "Default", "DEFAULT", " default", "", "d"]
BAD_LIFE = ["30", "86400", " 7 ", "+4", "1_0", "-2", "abc", "", "1.5", "0x10", "1__0", "_1", None, [1], {"a": 1}]


def gen_record(rng: Any, my_prio: int) -> Any:
    if rng.random() < 0.02:
        return rng.choice([None, "str", 5, [1]])
    r: dict[str, Any] = {}
    c = rng.random()
    if c < 0.12:
        pass
    elif c < 0.92:
        r["priority"] = rng.choice([my_prio - 1, my_prio, my_prio, my_prio + 1, my_prio + 1, 0, 100, -7, 10 ** 6])
    elif c < 0.95:
        r["priority"] = rng.choice([True, False])
    else:
        r["priority"] = rng.choice(BAD_PRIO)
    c = rng.random()
    life: Any = 60
    if c < 0.15:
        pass
    elif c < 0.86:
        life = r["lifetime"] = rng.choice([0, 1, 1, 2, 5, 10, 60, -5, 3600] + ([rng.choice(DAYS)] * 2))
    elif c < 0.89:
        life = r["lifetime"] = rng.choice([True, False])
    else:
        life = r["lifetime"] = rng.choice(BAD_LIFE)
    if rng.random() < 0.03:
        # beyond what timedelta / datetime can hold (OverflowError in Peer()), and the last values they can
        life = r["lifetime"] = rng.choice(HUGE_LIFE)
    c = rng.random()
    fmt = rng.choice(["full", "full", "full", "naive", "z", "space"])
    if not isinstance(life, dict) and (c * 1000) % 1 < 0.3:
        # 30%: stamped in a local time with a UTC offset (the same instant). (Not with a deadline within hours of the end of
        # `datetime`'s range: representable or not depending on the offset - aware datetimes are added in their local time:
        # see ASSUMPTIONS. The choice hangs on the digits of a draw already made: the stream of `rng` stays what it was.)
        fmt = ["tz120", "tz-330", "tz345"][int(c * 10000) % 3]
    life_i = life if isinstance(life, int) and abs(life) < 10 ** 7 else 60
    if c < 0.10:
        pass
    elif c < 0.14:
        r["lastseen"] = {"raw": None}
    elif c < 0.17:
        r["lastseen"] = {"raw": rng.choice(["garbage", "", 5, "2030-13-45", [1]])}
    elif c < 0.55:
        r["lastseen"] = {"age": int(life_i) * TPS + rng.choice([-2, -1, 0, 0, 1, 2]), "fmt": fmt}    # on the deadline
    elif c < 0.65:
        r["lastseen"] = {"age": -rng.choice([1, 64, 6400]), "fmt": fmt}                                # in the future
    else:
        r["lastseen"] = {"age": rng.choice([0, 1, 63, 64, 65, 640, 3839, 3840, 3841, 64000]), "fmt": fmt}
    if rng.random() < 0.3:
        r["namespace"] = "ns"
        r["extra"] = {"a": [1, 2], "b": None}
    if rng.random() < 0.02:
        r["identity"] = "dup"
    return r


def gen_direct(rng: Any) -> dict:
    my_prio = rng.choice([0, 0, 10, 100, -3])
    n = rng.choice([0, 1, 1, 2, 2, 3, 4, 5])
    ids = rng.sample(IDS, min(n, len(IDS)))
    records = [[i, gen_record(rng, my_prio)] for i in ids]
    c = rng.random()
    mode = "dict" if c < 0.96 else rng.choice(["missing", "none", "list", "str", "int"])
    case = {"me": "me", "prio": my_prio, "toggle": rng.choice([None, True, True, False, False]),
            "autoclean": rng.random() < 0.9, "name_ok": rng.random() < 0.97, "status_mode": mode, "records": records,
            "latency": rng.choice([0, 1, 1, 2, 64]), "gap": rng.choice([1, 3, 64]),
            "interrupt": None if rng.random() < 0.7 else rng.choice([1, 5, 100, 4000])}
    # (own stream, derived from the case: the draws of `rng` - and with them the histories generated after the direct cases - stay)
    r2 = random.Random(json.dumps(case, sort_keys=True, default=repr))
    if not case["name_ok"]:
        # another peering object of the same kind: any name but ours, also names that merely look like it
        case["name"] = r2.choice(FOREIGN_NAMES)
    if r2.random() < 0.5:
        case["rv"] = r2.choice([1, 7, 12345])         # the event carries a resourceVersion (as every real one does)
    if any(isinstance(r, dict) and (isinstance(r.get("lifetime"), dict) or (type(r.get("lifetime")) is int and abs(r["lifetime"]) > 10 ** 7))
           for _i, r in records):
        # a live blocker whose deadline is thousands of years away: the sleep towards it is always interrupted (a new event),
        # the virtual clock must not travel there
        case["interrupt"] = rng.choice([1, 5, 100])
    return case


@functools.lru_cache(maxsize=200_000)
def _parse_ls_independent(v: str) -> float | None:
    """Seconds since EPOCH, by the standard library (not iso8601); None when it is not one of our formats."""
    try:
        d = datetime.datetime.fromisoformat(v.replace(" ", "T").replace("Z", "+00:00"))
    except Exception:  # noqa: BLE001
        return None
    if d.tzinfo is None:
        d = d.replace(tzinfo=datetime.timezone.utc)
    return (d - EPOCH).total_seconds()


def expected_from_statement(status: Any, me: str, my_prio: int, now_s: float) -> dict | None:
    """The property statement read directly: who is live, who blocks me, who is dead. Only for statuses whose
    records are well-typed (unknown keys, missing lifetime / lastseen / priority allowed); else None."""
    if not isinstance(status, dict):
        return None
    blocked, dead = False, []
    for ident, rec in status.items():
        if not isinstance(rec, dict) or "identity" in rec:
            return None
        prio = rec.get("priority", 0)
        life = rec.get("lifetime", 60)
        if type(prio) is not int or type(life) is not int:
            return None
        if rec.get("lastseen") is None:
            seen = now_s
        else:
            if not isinstance(rec["lastseen"], str):
                return None
            p = _parse_ls_independent(rec["lastseen"])
            if p is None:
                return None
            seen = p
        if not (-86399999913600 <= life <= 86399999999999) or not (sim_c13.DT_MIN_S <= seen + life < sim_c13.DT_END_S):
            return None               # not a representable deadline (timedelta / datetime overflow): Peer() raises, as for a garbled record
        live = seen + life > now_s
        if not live:
            if ident != me:           # "expired records of OTHERS are cleaned up"
                dead.append(ident)
        elif ident != me and prio >= my_prio:
            blocked = True
    return {"paused": blocked, "dead": dead}


def direct_oracle(ctx: Ctx, case: dict, res: dict) -> None:
    if not case.get("name_ok", True):
        # "in ITS peering object": whoever is in another peering object (another neighbourhood) is not a peer - nothing
        # is observed, nothing is cleaned, nothing is written, the toggle stays
        did = {k: res[k] for k in ("cleaned", "turned", "touched", "error") if res[k]}
        if did or res.get("n_patches_all") or (case["toggle"] is not None and res["paused_end"] != bool(case["toggle"])):
            ctx.oracle_fail(f"an event of the peering object {case.get('name', 'other')!r} (the operator's own is 'default') was acted upon: {did}",
                            {"direct_case": case, "result": _slim(res)},
                            {"site": "process_peering_event", "shape": "a foreign peering object is not ignored"})
        return
    exp = expected_from_statement(res["status"], case["me"], case["prio"], res["now"] / TPS) if case.get("name_ok", True) else None
    if exp is None or res["error"] is not None and res["error"] != "cancelled":
        if exp is not None and res["error"] is not None:
            ctx.oracle_fail(f"process_peering_event raised {res['error']} on a well-typed status",
                            {"direct_case": case, "result": _slim(res)}, {"site": "process_peering_event", "shape": "raises on well-typed status"})
        return
    if case["toggle"] is not None and res["paused"] is not None and res["paused"] != exp["paused"]:
        ctx.oracle_fail(f"toggle is {'on' if res['paused'] else 'off'} but a live peer of priority >= mine "
                        f"{'exists' if exp['paused'] else 'does not exist'}",
                        {"direct_case": case, "result": _slim(res)},
                        {"site": "process_peering_event", "shape": "paused != exists live peer with priority >= own"})
    if case.get("autoclean", True) and sorted(res["cleaned"]) != sorted(exp["dead"]):
        ctx.oracle_fail(f"cleaned {res['cleaned']} but the dead records are {exp['dead']}",
                        {"direct_case": case, "result": _slim(res)}, {"site": "process_peering_event", "shape": "cleaned != dead records"})
    if exp["paused"] and res["reached_sleep"] and not res["interrupted"] and not res["touched"]:
        ctx.oracle_fail("a blocked operator slept to the deadline undisturbed but did not touch its record (nobody re-evaluates)",
                        {"direct_case": case, "result": _slim(res)}, {"site": "process_peering_event", "shape": "no self-touch after the deadline"})


def _slim(res: dict) -> dict:
    return {k: v for k, v in res.items() if k not in ("abs_status",)}


def decide_request(abs_status: Any, me: str, prio: int, autoclean: bool, name_ok: bool, toggle: Any, now: int, now2: int) -> list:
    return ["C13.decide", {"u": TPS, "status": abs_status, "me": me, "prio": prio, "autoclean": autoclean,
                           "name_ok": name_ok, "toggle": toggle, "now": now, "now2": now2}]


def direct_impl_view(case: dict, res: dict) -> Any:
    if res["error"] is not None:
        return ["err", res["error"]]
    if not res["reached_sleep"]:
        return "ignored"
    turned = res["turned"]
    v = {"cleaned": res["cleaned"], "turned": turned[0] if len(turned) == 1 else (None if not turned else turned),
         "paused": res["paused"], "delays": res["delays"]}
    if not res["interrupted"]:
        v["sleep"] = res["slept"] if res["slept"] > 0 else None
        v["touch"] = res["touched"]
    return v


def model_view(out: Any, interrupted: bool) -> Any:
    if not out or out[0] != "ok":
        return out
    m = out[1]
    if m == "ignored":
        return "ignored"
    v = {"cleaned": m["cleaned"], "turned": m["turned"], "paused": m["paused"], "delays": m["delays"]}
    if not interrupted:
        v["sleep"] = m["sleep"]
        v["touch"] = m["touch"]
    return v


def wf_status(status: Any) -> list | None:
    """A status as the transition system holds it: [[identity, {priority, lifetime, lastseen(ticks)}], …] in document order;
    None when some record is not of that shape (then the LTS-level ties skip it). Unknown keys are dropped on both sides."""
    if status is None:
        return []
    if not isinstance(status, dict):
        return None
    out = []
    for k, r in status.items():
        r = wf_rec(r)
        if r is None:
            return None
        out.append([k, r])
    return out


def wf_rec(r: Any) -> dict | None:
    if not isinstance(r, dict) or type(r.get("priority")) is not int or type(r.get("lifetime")) is not int:
        return None
    t = sim_c13.iso_ticks(r.get("lastseen"))
    if not isinstance(t, int) or isinstance(t, bool):
        return None
    return {"priority": r["priority"], "lifetime": r["lifetime"], "lastseen": t}


# =================================================================================================
# 3. histories
DAYS = [86399, 86400, 86401, 86430, 172800, 604800, 90061]     # around and beyond one day (timedelta.days != 0)
PRIOS = [0, 5, 10, 50, 100, 1000, -5]
LIFES = [1, 2, 2, 3, 4, 6, 8, 10, 12, 20, 60]


def _dy(rng: Any, lo: float, hi: float) -> float:
    return rng.randrange(int(lo * 64), int(hi * 64) + 1) / 64.0


def gen_history(rng: Any, seed: int) -> dict:
    n = rng.choice([2, 2, 3, 3, 4])
    names = ["A", "B", "C", "D"][:n]
    prios = rng.sample(PRIOS, n)
    clash = rng.random() < 0.2
    if clash:
        prios[1] = prios[0]
    ops = {nm: {"priority": prios[k], "lifetime": rng.choice(LIFES)} for k, nm in enumerate(names)}
    if rng.random() < 0.08:          # somebody configured with a lifetime of a day or more
        for nm in rng.sample(names, rng.choice([1, 1, 2])):
            ops[nm]["lifetime"] = rng.choice(DAYS)
    end = rng.choice([40.0, 60.0, 90.0, 120.0])
    tl: list[list] = []
    running: dict[str, bool] = {}
    t = 1.0
    for nm in names:
        tl.append([t, "start", nm])
        running[nm] = True
        t = _dy(rng, t, min(t + 20.0, end - 10))
    # lifecycle events
    events = rng.choice([1, 2, 2, 3, 4, 5])
    tt = _dy(rng, 4.0, 25.0)
    for _ in range(events):
        if tt >= end - 3:
            break
        up = [x for x in names if running.get(x)]
        down = [x for x in names if not running.get(x)]
        c = rng.random()
        if up and (c < 0.65 or not down):
            # bias towards the currently highest-priority running operator (failover)
            target = max(up, key=lambda x: ops[x]["priority"]) if rng.random() < 0.6 else rng.choice(up)
            tl.append([tt, rng.choice(["kill", "stop"]), target])
            running[target] = False
        elif down:
            target = rng.choice(down)
            tl.append([tt, "start", target])
            running[target] = True
        tt = _dy(rng, tt + 0.5, tt + rng.choice([3.0, 10.0, 30.0, 70.0]))
    # foreign records
    pre: dict[str, Any] | None = None
    if rng.random() < 0.3:
        pre = {}
        if rng.random() < 0.7:
            pre["old-dead"] = {"priority": 500, "lifetime": 5, "lastseen": "2029-12-31T23:00:00+00:00", "note": "left over"}
        if rng.random() < 0.4:
            pre["old-nolife"] = {"priority": 500, "lastseen": "2029-12-31T23:58:30+00:00"}   # dead by the default lifetime
        if not pre:
            pre = None
    for _ in range(rng.choice([0, 0, 1, 1, 2])):
        tg = _dy(rng, 2.0, end - 5)
        kind = rng.choice(["dead", "live-high", "live-low", "nolife-high", "unknown-fields", "remove"])
        gid = f"ghost-{len(tl)}"
        if kind == "dead":
            tl.append([tg, "ghost_rel", {gid: {"priority": 9999, "lifetime": 3, "age": 10}}])
        elif kind == "live-high":
            tl.append([tg, "ghost_rel", {gid: {"priority": 9999, "lifetime": rng.choice([2, 5, 9]), "age": 0}}])
        elif kind == "live-low":
            tl.append([tg, "ghost_rel", {gid: {"priority": -9999, "lifetime": rng.choice([2, 5, 9]), "age": 0}}])
        elif kind == "nolife-high":       # lifetime missing: 60 s by default; expires 60 - age after the write
            tl.append([tg, "ghost_rel", {gid: {"priority": 9999, "age": rng.choice([50, 55, 58])}}])
        elif kind == "unknown-fields":
            tl.append([tg, "ghost_rel", {gid: {"priority": rng.choice([9999, -9999]), "lifetime": 4, "age": 1, "zone": "eu", "tags": ["x", {"y": 1}]}}])
        else:
            tl.append([tg, "ghost", {gid: None}])
    # changes of the handled object
    x = 0
    te = _dy(rng, 2.0, 10.0)
    while te < end - 1:
        x += 1
        tl.append([te, "edit", "a", {"spec": {"x": x}}])
        te = _dy(rng, te + 0.5, te + rng.choice([4.0, 12.0, 30.0]))
    if rng.random() < 0.4:
        tl.append([_dy(rng, 3.0, end - 2), "create", "b", {"spec": {"x": 100}}])
    delivery = {nm: rng.choice([0, 0, 0, 1 / 64, 4 / 64, 0.25, 0.5]) for nm in names}
    if rng.random() < 0.12:
        # the late-delivery regime: some operator sees peering events later than another one's keep-alive margin
        victim, slow = rng.sample(names, 2)
        ops[victim]["lifetime"] = rng.choice([1, 2, 3])
        delivery[slow] = float(max(1, min(5, ops[victim]["lifetime"] - 1)))
    resp_lat: dict[str, float] = {}
    if rng.random() < 0.10:
        # somebody is stopped within its first moments, its first keep-alive PATCH applied but not yet answered
        nm = rng.choice(names)
        resp_lat[nm] = rng.choice([2 / 64, 4 / 64, 0.25])
        t0 = min(e[0] for e in tl if e[1] == "start" and e[2] == nm)
        if not any(e[1] in ("stop", "kill") and e[2] == nm and e[0] <= t0 + 2 for e in tl):
            tl.append([t0 + rng.choice([2, 3, 4, 5]) / 64, "stop", nm])
    hdelay = rng.choice([0.5, 1.5, 1.5, 3.0]) if rng.random() < 0.3 else 0.0
    if hdelay and rng.random() < 0.5:
        # ... and somebody is stopped while its handler runs (the exit window)
        edits = [e for e in tl if e[1] == "edit"]
        if edits:
            e = rng.choice(edits)
            tl.append([e[0] + rng.choice([0.25, 0.5, 1.0]), "stop", max(names, key=lambda x: ops[x]["priority"])])
    sc = {"seed": seed, "peering": rng.choice(["default", "verif-peers"]), "ops": ops, "pre_status": pre,
          "response_latency": resp_lat, "handler_delay": hdelay,
          "sticky_identities": rng.random() < 0.25,
          "objects": [{"name": "a", "body": {"spec": {"x": 0}}}], "timeline": sorted(tl, key=lambda e: e[0]),
          "delivery": delivery, "end": end}
    # 15%: a waiting operator is asked to stop at the very tick its sleep towards a blocker's deadline ends (its self-touch and
    # the withdrawal are then in flight together: audit N3, the residue of F2). Own random stream: the other histories stay as they were.
    r2 = random.Random(seed * 7919 + 13)
    if r2.random() < 0.15:
        top = max(names, key=lambda x: ops[x]["priority"])
        waiting = [x for x in names if x != top]
        kills = [e[0] for e in tl if e[1] == "kill"]
        sc["stop_on_wake"] = {r2.choice(waiting): (min(kills) if kills and r2.random() < 0.7 else 0.0)}
    # 5%: churn - everybody renews every second (lifetime 2) and gets its peering events 0.5-0.75 s late (inside the margin of 1 s:
    # the timely regime), and a dead foreign record appears: is it still cleaned when every clean() names a version that is
    # already gone (054d47d)? Drawn after the draws above, from the same own stream: the other histories stay as they were.
    if r2.random() < 0.05 and "stop_on_wake" not in sc:
        d = r2.choice([0.5, 0.75])
        for nm in names:
            ops[nm]["lifetime"] = 2
            delivery[nm] = d
        sc["response_latency"] = {}
        tg = _dy(r2, 6.0, max(7.0, end - 12))
        sc["timeline"] = sorted(sc["timeline"] + [[tg, "ghost_rel", {"ghost-churn": {"priority": r2.choice([9999, -9999]), "lifetime": 3, "age": 10}}]],
                                key=lambda e: e[0])
        sc["churn"] = True
    # Configurations (a third own stream: the histories above stay what they were): namespaced operators peering through a
    # KopfPeering of their namespace; daemons that end only when CANCELLED; a timer; other peering objects of the same kind
    # beside ours (names that look like ours; live top-priority and dead records in them); records stamped in local times.
    r3 = random.Random(seed * 104729 + 71)
    if r3.random() < 0.2:
        sc["scope"] = "namespaced"
    if r3.random() < 0.4:
        sc["daemon_mode"] = "cancel"
    if r3.random() < 0.5:
        sc["timer"] = r3.choice([0.5, 1.0, 1.0, 2.0])
    if r3.random() < 0.2:
        pn = sc["peering"]
        sc["other_peerings"] = {r3.choice([pn + "-2", pn + "x", "x" + pn, pn[:-1], "other"]): {
            "boss": {"priority": 99999, "lifetime": 3600},                                           # never expires (no lastseen)
            "old-dead": {"priority": 500, "lifetime": 5, "lastseen": "2029-12-31T23:00:00+00:00"}}}
    for e in sc["timeline"]:
        if e[1] == "ghost_rel" and r3.random() < 0.5:
            for v in e[2].values():
                if isinstance(v, dict) and "age" in v:
                    v["tz"] = r3.choice([120, -330, 345, -60])
    # 15% (a fourth own stream): API FAULTS on the peering PATCHes of one operator - see `with_faults`
    r4 = random.Random(seed * 15485863 + 29)
    if r4.random() < FAULT_SHARE:
        sc = with_faults(r4, sc)
    # 12% (a fifth own stream): ONE peering PATCH of one operator is slower on its way to the server than the requests around
    # it, and the operator is stopped / killed while it is in flight or right after - see `with_slow`
    r5 = random.Random(seed * 32452843 + 101)
    if r5.random() < SLOW_SHARE and "faults" not in sc:
        sc = with_slow(r5, sc)
    return sc


FAULT_SHARE = 0.15
# (kind, status, how many consecutive requests = attempts of kopf's client): statuses the client does not retry; retried ones once
# or twice (the next attempt gets through) and beyond settings.networking.error_backoffs (3 back-offs = 4 attempts: the error
# escapes); a connection error before / after the server applied the write; a timeout
FAULT_KINDS = [("status", 409, 1), ("status", 409, 1), ("status", 422, 1), ("status", 400, 1),
               ("status", 503, 4), ("status", 500, 4), ("status", 429, 4), ("status", 503, 1), ("status", 500, 2), ("status", 429, 1),
               ("conn-before", 0, 1), ("conn-before", 0, 4), ("conn-after", 0, 1), ("conn-after", 0, 4), ("timeout", 0, 1), ("timeout", 0, 4)]


def with_faults(r: Any, base: dict) -> dict:
    """A history with an API fault at one particular point of the peering protocol of one operator: the n-th regular keep-alive,
    the self-touch of a process_peering_event call that slept to a blocker's deadline, a clean() of dead records, the withdrawal.
    Operators, priorities, peering name and the configuration (scope, daemon mode, timer, other peering objects) are the base
    history's; the timeline is built so that the faulted request happens and its consequences fit in: lifetimes of the faulted
    operator both below and above 20 s (above, one skipped renewal round is longer than the record lives)."""
    names = list(base["ops"])
    ops = {nm: dict(o) for nm, o in base["ops"].items()}
    prios = [ops[nm]["priority"] for nm in names]
    if len(set(prios)) != len(prios):                 # (clashing priorities: everybody pauses; here the top one must be active)
        for k, nm in enumerate(sorted(names, key=lambda x: ops[x]["priority"])):
            ops[nm]["priority"] = ops[nm]["priority"] + k
    top = max(names, key=lambda x: ops[x]["priority"])
    lower = [x for x in names if x != top]
    cls = r.choice(["keepalive"] * 11 + ["selftouch"] * 3 + ["clean"] * 3 + ["withdraw"] * 3)
    kind, status, count = r.choice(FAULT_KINDS)
    who = (top if r.random() < 0.7 else r.choice(names)) if cls in ("keepalive", "withdraw") else r.choice(lower)
    for nm in names:
        ops[nm]["lifetime"] = r.choice([2, 4, 8, 12, 20, 30, 30, 45, 60, 60] if nm == who else [4, 8, 12, 20, 30, 60])
    L, Ltop = ops[who]["lifetime"], ops[top]["lifetime"]
    tl: list[list] = []
    t = 1.0
    starts = {}
    for nm in r.sample(names, len(names)):
        tl.append([t, "start", nm])
        starts[nm] = t
        t = _dy(r, t + 0.5, t + 4.0)
    t_all = t
    nth = 1
    if cls == "keepalive":
        nth = r.choice([2, 2, 2, 3, 3, 1])
        t_f = starts[who] + (nth - 1) * max(1.0, L - 5.0)            # the latest the n-th keep-alive is issued
        end = t_f + L + 20.0
    elif cls == "withdraw":
        t_f = _dy(r, t_all + 3.0, t_all + 20.0)
        tl.append([t_f, "stop", who])
        end = t_f + L + 20.0
    else:
        # the top one is killed: the others sleep to its deadline, wake and self-touch; then its record is dead and gets cleaned
        t_k = _dy(r, t_all + 3.0, t_all + 15.0)
        tl.append([t_k, "kill", top])
        nth = r.choice([1, 1, 2])
        t_f = t_k + Ltop
        end = t_f + max(o["lifetime"] for o in ops.values()) + 20.0
    end = float(int(min(end, 260.0)))
    x = 0
    te = _dy(r, 2.0, 6.0)
    while te < end - 1:
        x += 1
        tl.append([te, "edit", "a", {"spec": {"x": x}}])
        te = _dy(r, te + 0.5, te + r.choice([3.0, 6.0, 12.0]))
    settings: dict[str, Any] = {"networking.request_timeout": 2.0}
    if r.random() < 0.5:
        settings["networking.error_backoffs"] = [0.25, 0.5, 0.5]
    sc = {k: v for k, v in base.items() if k in ("seed", "peering", "objects", "sticky_identities", "scope", "daemon_mode", "timer", "other_peerings")}
    sc.update({"ops": ops, "pre_status": ({"old-dead": {"priority": 500, "lifetime": 5, "lastseen": "2029-12-31T23:00:00+00:00"}}
                                          if cls == "clean" and r.random() < 0.5 else None),
               "response_latency": {}, "handler_delay": r.choice([0.0, 0.0, 0.5, 1.5]),
               "timeline": sorted(tl, key=lambda e: e[0]), "delivery": {nm: r.choice([0, 0, 1 / 64, 4 / 64, 0.25]) for nm in names},
               "end": end, "settings": settings,
               "faults": [{"who": who, "cls": cls, "nth": nth, "count": count, "kind": kind, "status": status}]})
    return sc


SLOW_SHARE = 0.12


def with_slow(r: Any, base: dict) -> dict:
    """A history in which ONE peering PATCH of one operator - its n-th regular keep-alive, the self-touch of a call that slept
    to a blocker's deadline, a clean(), the withdrawal - takes 1/16 .. 3 s longer to reach the server than every other request
    ("every delivery timing of ... keep-alives": the API applies requests in the order they ARRIVE), and (70%) that operator is
    asked to stop - or is killed - while the request is in flight (1/64 s after it was sent, half-way, one tick before it
    arrives) or right after it has arrived. The delay stays inside the keep-alive margin of the operator (lifetime >= 8 s: 5 s):
    a running operator's record must stay fresh through it. Operators, priorities, peering name and configuration are the base
    history's; the timeline is built so that the slow request happens and what follows (take-over, expiry) fits in."""
    names = list(base["ops"])
    ops = {nm: dict(o) for nm, o in base["ops"].items()}
    prios = [ops[nm]["priority"] for nm in names]
    if len(set(prios)) != len(prios):
        for k, nm in enumerate(sorted(names, key=lambda x: ops[x]["priority"])):
            ops[nm]["priority"] = ops[nm]["priority"] + k
    top = max(names, key=lambda x: ops[x]["priority"])
    lower = [x for x in names if x != top]
    cls = r.choice(["keepalive"] * 7 + ["selftouch"] * 2 + ["clean"] + ["withdraw"] * 2)
    who = (top if r.random() < 0.7 else r.choice(names)) if cls in ("keepalive", "withdraw") else r.choice(lower)
    for nm in names:
        ops[nm]["lifetime"] = r.choice([8, 12, 20, 30, 60, 60] if nm == who else [4, 8, 12, 20, 30, 60])
    L, Ltop = ops[who]["lifetime"], ops[top]["lifetime"]
    delay = r.choice([4 / 64, 0.25, 0.5, 0.5, 1.0, 2.0, 3.0])
    nth = 1
    tl: list[list] = []
    t = 1.0
    starts = {}
    for nm in r.sample(names, len(names)):
        tl.append([t, "start", nm])
        starts[nm] = t
        t = _dy(r, t + 1.5, t + 4.0)
    t_all = t
    quiet: list[tuple[float, float]] = []          # no edits of the handled object there
    if cls == "keepalive":
        nth = r.choice([2, 2, 2, 3, 1])
        if nth == 1:
            delay = min(delay, 0.5)                  # (its record is not there yet: the others cannot know it)
            quiet.append((starts[who] - 1.0, starts[who] + 4.0))
        t_f = starts[who] + (nth - 1) * max(1.0, L - 5.0)
    elif cls == "withdraw":
        t_f = _dy(r, t_all + 3.0, t_all + 20.0)
        tl.append([t_f, "stop", who])
    else:
        delay = min(delay, 1.0) if cls == "clean" else delay
        t_k = _dy(r, t_all + 3.0, t_all + 15.0)
        tl.append([t_k, "kill", top])
        t_f = t_k + Ltop
    then = None
    c = r.random()
    if cls != "withdraw":
        if c < 0.55 or nth == 1:
            then = ["stop", r.choice([1 / 64, 2 / 64, delay / 2, delay - 1 / 64])]      # in flight
        elif c < 0.65:
            then = ["stop", delay + r.choice([1, 2, 4]) / 64]                            # it has just arrived
        elif c < 0.75:
            then = ["kill", r.choice([1 / 64, delay / 2])]
    end = float(int(min(t_f + max(o["lifetime"] for o in ops.values()) + 20.0, 200.0)))
    x = 0
    te = _dy(r, 2.0, 6.0)
    while te < end - 1:
        if not any(a <= te <= b for a, b in quiet):
            x += 1
            tl.append([te, "edit", "a", {"spec": {"x": x}}])
        te = _dy(r, te + 0.5, te + r.choice([3.0, 6.0, 12.0]))
    sc = {k: v for k, v in base.items() if k in ("seed", "peering", "objects", "sticky_identities", "scope", "daemon_mode", "timer", "other_peerings")}
    rule = {"who": who, "cls": cls, "nth": nth, "delay": delay}
    if then is not None:
        rule["then"] = then
    sc.update({"ops": ops, "pre_status": ({"old-dead": {"priority": 500, "lifetime": 5, "lastseen": "2029-12-31T23:00:00+00:00"}}
                                          if cls == "clean" and r.random() < 0.5 else None),
               "response_latency": {}, "handler_delay": r.choice([0.0, 0.0, 0.5, 1.5]),
               "timeline": sorted(tl, key=lambda e: e[0]), "delivery": {nm: r.choice([0, 0, 1 / 64, 4 / 64, 0.25]) for nm in names},
               "end": end, "slow_requests": [rule]})
    return sc


# ---- oracle over one history --------------------------------------------------------------------
class Hist:
    """Ground truth of one history: the peering status over time, who runs, who is paused."""

    def __init__(self, sc: dict, tr: dict):
        self.sc, self.tr = sc, tr
        self.t_end = tr["t_end"]
        self.ph = tr["peering_history"]
        self.ph_t = [h["t"] for h in self.ph]
        self.incs = tr["incs"]
        self.dmax = max([0.0] + [float(v) for v in (sc.get("delivery") or {}).values()])
        self.W = self.dmax + 1.0
        margins = [min(5, int(o.get("lifetime", 60)) - 1) if int(o.get("lifetime", 60)) >= 2 else 0.5 for o in sc["ops"].values()]
        # peering events may arrive later than the keep-alive margin of some operator: stale views look dead
        # (late delivery proper, or a reader whose own API calls are answered slowly: it works off its peering events - each
        #  with a clean() or touch() - one by one and falls behind)
        rmax = max([0.0] + [float(v) for v in (sc.get("response_latency") or {}).values()])
        self.late = self.dmax + 4 * LAT + 3 * rmax >= min(margins)
        self._dl: list | None = None
        self._dl_keys: list = []
        self.t_fail: dict[int, float] = {}
        for g in tr.get("guard_failures", []):
            self.t_fail.setdefault(g["inc"], g["t"])
        # ---- injected API faults (the environment): when, for whom, and for how long no code could have done better ----
        # A SERIES = consecutive faulted requests of one operator (the attempts of kopf's client: at most the longest back-off
        # apart). Its WINDOW = [issue of the first, answer of the last + the time the code needs to notice]: the next attempt comes
        # one back-off later when the failure is of a retried kind (5xx, 429, 403, connection errors, timeouts), at once otherwise;
        # + 4 ticks for the round trip of what it does then (the withdrawal) and the callbacks that stop the operator.
        st_ = sc.get("settings") or {}
        self.backoffs = [float(x) for x in st_.get("networking.error_backoffs", (1, 1, 2))]
        self.bmax = max([0.0] + self.backoffs)
        self.hits = sorted(tr.get("fault_hits", []), key=lambda h: h["t"])
        self.windows: dict[int, list[tuple[float, float, bool, list]]] = {}     # inc -> [(a, b, own-record?, hits)]
        series: dict[tuple, list[list]] = {}
        for h in self.hits:
            if h.get("t_done") is None:
                h["t_done"] = h["t"] + LAT
            key = (h["inc"], bool(h.get("in_call")))
            ss = series.setdefault(key, [])
            if ss and h["t"] - ss[-1][-1]["t_done"] <= self.bmax + 2 * LAT:
                ss[-1].append(h)
            else:
                ss.append([h])
        self.call_delay = 0.0           # the longest a process_peering_event call was held up by faults (it retries inside)
        for (inc, in_call), ss in series.items():
            for hs in ss:
                last = hs[-1]
                retried = last["kind"] != "status" or last["status"] >= 500 or last["status"] in (403, 429)
                a, b = hs[0]["t"], last["t_done"] + (self.bmax if retried else 0.0) + 4 * LAT
                own = any(h["cls"] in ("keepalive", "withdraw", "selftouch", None) for h in hs)
                self.windows.setdefault(inc, []).append((a, b, own, hs))
                if in_call:
                    self.call_delay = max(self.call_delay, b - a)
        self.W += self.call_delay       # a call that retries a faulted request gives its verdict / re-evaluates that much later
        # a slow request (`slow_requests` of the scenario: the environment) INSIDE a process_peering_event call - its clean(), its
        # self-touch - holds that call, and the operator's next verdict, up by as much
        self.slow = list(tr.get("slow_hits", []))
        self.W += max([0.0] + [float(h["delay"]) for h in self.slow if h.get("in_call")])
        # pause function per incarnation
        self.pz: dict[int, list[tuple[float, bool]]] = {}
        self.made: dict[int, float] = {}
        state: dict[int, dict[int, bool]] = {}
        for g in tr["toggles"]:
            if g["set"] != "any":
                continue
            st = state.setdefault(g["inc"], {})
            if g["kind"] == "drop":
                st.pop(g["tid"], None)
            else:
                st[g["tid"]] = bool(g["state"])
            if g["kind"] == "make" and g["name"] and "@" in g["name"]:
                self.made.setdefault(g["inc"], g["t"])
            self.pz.setdefault(g["inc"], []).append((g["t"], any(st.values())))

    def status_at(self, t: float) -> tuple[dict, str | None]:
        k = bisect.bisect_right(self.ph_t, t) - 1
        if k < 0:
            return {}, None
        return (self.ph[k]["status"] or {}), self.ph[k]["rv"]

    def paused_at(self, inc: int, t: float) -> bool | None:
        """The value of the operator_paused set at time t (after all events at t)."""
        ev = self.pz.get(inc, [])
        out = None
        for tt, v in ev:
            if tt <= t:
                out = v
            else:
                break
        return out

    def excused(self, inc: int, t0: float, t1: float) -> bool:
        """[t0, t1] lies within ONE fault window of that operator's own-record requests (keep-alive, self-touch, withdrawal)."""
        return any(own and a <= t0 and t1 <= b for (a, b, own, _hs) in self.windows.get(inc, []))

    def in_window(self, inc: int, t: float) -> bool:
        """t lies in a fault window of that operator's own-record requests, or within W after it (the others still reacting)."""
        return any(own and a <= t <= b + self.W for (a, b, own, _hs) in self.windows.get(inc, []))

    def end_of(self, i: dict) -> float:
        """Until when the incarnation counts as a running operator."""
        return min(x for x in [i["t_killed"], i["t_stop_req"], self.t_fail.get(i["inc"]), self.t_end] if x is not None)

    def running(self, i: dict, t: float) -> bool:
        return i["t_start"] <= t < self.end_of(i)

    @staticmethod
    def deadline(rec: dict) -> float | None:
        """Seconds since EPOCH when the record expires; None = never (no lastseen: always 'just seen')."""
        life = rec.get("lifetime", 60)
        if rec.get("lastseen") is None:
            return None if life > 0 else float("-inf")
        p = _parse_ls_independent(rec["lastseen"])
        assert p is not None
        return p + life

    def live(self, rec: dict, t: float) -> bool:
        d = self.deadline(rec)
        return d is None or d > t

    def blockers(self, i: dict, t: float) -> frozenset:
        st, _ = self.status_at(t)
        return frozenset(k for k, r in st.items()
                         if k != i["identity"] and self.live(r, t) and r.get("priority", 0) >= i["priority"])

    def expected_paused(self, i: dict, t: float) -> bool:
        return bool(self.blockers(i, t))

    def change_points(self, t0: float, t1: float) -> list[float]:
        """Moments in (t0, t1] where the status or some record's liveness changes."""
        if self._dl is None:
            seen: dict[float, float] = {}
            for h in self.ph:
                for r in (h["status"] or {}).values():
                    d = self.deadline(r)
                    if d is not None and (d not in seen or h["t"] < seen[d]):
                        seen[d] = h["t"]
            self._dl = sorted(seen.items())
            self._dl_keys = [d for d, _ in self._dl]
        pts = self.ph_t[bisect.bisect_right(self.ph_t, t0):bisect.bisect_right(self.ph_t, t1)]
        lo, hi = bisect.bisect_right(self._dl_keys, t0), bisect.bisect_right(self._dl_keys, t1)
        return sorted(set(pts) | {d for d, first in self._dl[lo:hi] if first <= t1})


def oracle_history(ctx: Ctx, sc: dict, tr: dict, full: bool = False) -> dict:
    """From the property statement, over implementation-level observations (toggle transitions, request log,
    handler calls, the stored versions of the peering object); never consults the Lean model."""
    H = Hist(sc, tr)
    stats = {"stable_points": 0, "settled_points": 0, "paused_intervals": 0, "failovers": 0, "renewals": 0, "withdrawals": 0,
             "dead_cleaned": 0}

    def fail(what: str, shape: str, **extra: Any) -> None:
        ctx.oracle_fail(what, {"scenario": sc, **extra}, {"site": "peering", "shape": shape})

    incs = H.incs
    by_inc = {i["inc"]: i for i in incs}
    timely = full or not H.late
    stats["late_regime"] = int(H.late)

    # ---- (X) no task of a running operator fails on its own --------------------------------------------------------
    # Not its own: a request that an injected fault of the scenario answered (the environment) and whose error escaped kopf's
    # client ends the task that issued it - the keep-alive, or the peering observer's call -, and with it the operator: FAIL-STOP,
    # what the code is meant to do (a running operator without a renewed record would be worse). Excused: the failure follows
    # the answer of a faulted request of that operator within the notice time, with an error of the API client's family; and the
    # same error as it propagates through the operator's other guarded tasks.
    API_ERRS = ("API", "ClientConnectionError", "ClientOSError", "ServerDisconnectedError", "TimeoutError")
    fail_stops: dict[int, dict] = {}
    for g in tr.get("guard_failures", []):
        first = fail_stops.get(g["inc"])
        if first is not None and (g["exc"], g["msg"]) == (first["exc"], first["msg"]):
            continue
        wrapped = (g["exc"] == "RuntimeError" and g["msg"].startswith("Event processing has failed") and g["task"].startswith("peering observer")
                   and any(p.get("faulted") and p["inc"] == g["inc"] and p["error"] not in (None, "cancelled") and str(p["error"]).startswith(API_ERRS)
                           and p.get("t1") is not None and 0 <= g["t"] * TPS - p["t1"] <= 4 for p in tr["pcalls"]))
        # (the observer: queueing.watcher reports the failure of its worker - the process_peering_event call that an injected
        #  fault made raise, an instant ago - as a RuntimeError of its own)
        if (g["exc"].startswith(API_ERRS) or wrapped) and any(a <= g["t"] <= b and any(h["t_done"] <= g["t"] for h in hs)
                                                              for (a, b, _own, hs) in H.windows.get(g["inc"], [])):
            if first is None:
                fail_stops[g["inc"]] = g
                stats["fail_stops"] = stats.get("fail_stops", 0) + 1
            continue
        i = by_inc.get(g["inc"])
        ctx.oracle_fail(f"task '{g['task']}' of operator {i['name'] if i else g['inc']} failed at {g['t']} with {g['exc']}: {g['msg']} "
                        f"(in {g['site']}); the operator stops working",
                        {"scenario": sc, "failure": g}, {"site": g["site"], "shape": f"task '{g['task']}' failed with {g['exc']}"})
    pcalls_by_inc: dict[int, list[dict]] = {}
    for p in tr["pcalls"]:
        pcalls_by_inc.setdefault(p["inc"], []).append(p)

    # ---- (A) stable windows: every running operator has a fresh record, has processed the latest status ----------
    step = max(0.5, round(H.t_end / 600.0 * 4) / 4)          # a half-second grid, coarser for day-long histories ...
    deadlines = set()          # the expiries that really happened: the record was still there at its deadline
    for h in H.ph:
        for ident, r in (h["status"] or {}).items():
            d = H.deadline(r)
            if d is not None and h["t"] <= d < H.t_end and H.status_at(d)[0].get(ident) == r:
                deadlines.add(d)
    checkpoints = sorted({k * step + 0.25 for k in range(int(H.t_end / step))} |
                         {e[0] - LAT for e in sc["timeline"] if e[0] > 1} | {H.t_end - LAT} |
                         # ... plus the moments around every expiry (just before; settled after)
                         {d - LAT for d in deadlines} | {d + H.W + 0.25 for d in deadlines} | {d + H.W + 2.25 for d in deadlines})
    pc_t0 = {k: [p["t0"] for p in v] for k, v in pcalls_by_inc.items()}
    for tc in checkpoints:
        if tc <= 0 or tc >= H.t_end:
            continue
        st, rv = H.status_at(tc)
        R = [i for i in incs if H.running(i, tc) and i["inc"] in H.made and H.made[i["inc"]] <= tc]
        if not R:
            continue
        stable = True
        for i in R:
            r = st.get(i["identity"])
            if r is None or not H.live(r, tc) or r.get("priority", 0) != i["priority"]:
                stable = False
                break
            kk = bisect.bisect_right(pc_t0.get(i["inc"], []), tc * TPS) - 1
            last = pcalls_by_inc[i["inc"]][kk] if kk >= 0 else None
            if last is None or last["rv"] != rv or last["now2"] is None or last["now2"] > tc * TPS or last["error"] not in (None, "cancelled"):
                stable = False
                break
            if any(H.live(rr, last["t0"] / TPS) != H.live(rr, tc) for rr in st.values()):
                stable = False
                break
        if not stable:
            continue
        stats["stable_points"] += 1
        for i in R:
            want = H.expected_paused(i, tc)
            got = H.paused_at(i["inc"], tc)
            if got != want:
                fail(f"stable at t={tc}: operator {i['name']} (priority {i['priority']}) is {'paused' if got else 'active'} "
                     f"but a live peer of priority >= its own {'exists' if want else 'does not exist'}",
                     "stable window: paused != exists live peer with priority >= own", t=tc, inc=i["inc"])
        ghosts = [k for k, r in st.items() if H.live(r, tc) and k not in {i["identity"] for i in R}]
        prios = [i["priority"] for i in R]
        if not ghosts and len(set(prios)) == len(prios):
            active = [i for i in R if H.paused_at(i["inc"], tc) is False]
            top = max(R, key=lambda i: i["priority"])
            if [a["inc"] for a in active] != [top["inc"]]:
                fail(f"stable at t={tc}: active operators {[a['name'] for a in active]}, the top-priority running one is {top['name']}",
                     "stable window: not exactly the top-priority operator active", t=tc)

    # ---- (B) settling: W after the last change of who is live, everybody holds the right verdict ------------------
    for i in incs if timely else []:
        made = H.made.get(i["inc"])
        if made is None:
            continue
        t_from = made
        t_to = H.end_of(i)
        for tc in checkpoints:
            if not (t_from + H.W < tc < t_to):
                continue
            pts = [tc - H.W] + H.change_points(tc - H.W, tc)
            vals = {H.blockers(i, p) for p in pts} | {H.blockers(i, tc)}
            if len(vals) != 1:
                continue            # who blocks this operator changed within the last W: it may still be reacting
            stats["settled_points"] += 1
            want = bool(vals.pop())
            got = H.paused_at(i["inc"], tc)
            if got != want:
                fail(f"t={tc}: for the last {H.W} s a live peer of priority >= {i['priority']} "
                     f"{'existed' if want else 'did not exist'}, yet operator {i['name']} is {'paused' if got else 'active'}",
                     "settled: paused != exists live peer with priority >= own" if want else "settled: still paused although every blocking peer is gone",
                     t=tc, inc=i["inc"])

    # ---- failover bookkeeping (evidence only; the checks are (A)/(B)) ------------------------------------------
    for i in incs:
        if i["t_killed"] is not None or i["t_stopped"] is not None:
            stats["failovers"] += 1

    # ---- (C) renewal: a running operator's record is there and fresh all the time ---------------------------------
    for i in incs:
        if i["lifetime"] < 1:
            continue
        t_to = H.end_of(i)
        first = None
        for k0, h in enumerate(H.ph):
            r = (h["status"] or {}).get(i["identity"])
            if h["t"] >= i["t_start"] and r is not None and r.get("lastseen") is not None \
                    and (_parse_ls_independent(r["lastseen"]) or -1) >= i["t_start"]:
                first = k0
                break
        if first is None:
            if t_to - i["t_start"] > 1.0 and H.excused(i["inc"], i["t_start"] + 1.0, t_to):
                stats["bare_in_fault_window"] = stats.get("bare_in_fault_window", 0) + 1      # its FIRST keep-alive was failing
            elif t_to - i["t_start"] > 1.0:
                fail(f"operator {i['name']} ran for {t_to - i['t_start']} s without ever writing its record",
                     "renewal: record never written", inc=i["inc"])
            continue
        for k, h in enumerate(H.ph):
            if k < first or h["t"] >= t_to:
                continue
            seg_end = min(H.ph[k + 1]["t"] if k + 1 < len(H.ph) else H.t_end, t_to)
            r = (h["status"] or {}).get(i["identity"])
            if r is None:
                prev = (H.ph[k - 1]["status"] or {}).get(i["identity"]) if k > 0 else None
                # who removed it: the write that landed at that moment (the landing time is what the fake API recorded; with a
                # delayed RESPONSE the write is applied at once, with a delayed request after the latency)
                killer = [w for w in tr.get("writes", []) if abs(w["t"] - h["t"]) < 1e-9 and isinstance(w["patch"], dict)
                          and i["identity"] in w["patch"] and w["patch"][i["identity"]] is None]
                restarted = any(j["identity"] == i["identity"] and j["t_start"] < i["t_start"] for j in incs) or \
                    (i["identity"] in (sc.get("pre_status") or {}))
                if H.excused(i["inc"], h["t"], seg_end):
                    # (its own withdrawal after a keep-alive that the API - an injected fault - refused: it is stopping)
                    stats["bare_in_fault_window"] = stats.get("bare_in_fault_window", 0) + 1
                    continue
                if killer and prev is not None and H.live(prev, h["t"]) and restarted and not H.late:
                    by = "itself" if killer[0]["who"] == i["who"] else killer[0]["who"]
                    ctx.oracle_fail(f"the fresh record of restarted operator {i['name']} (lastseen {prev.get('lastseen')}) was deleted at {h['t']} by "
                                    f"{by}: the clean() was aimed at the dead record the previous process left under the same identity, "
                                    f"and landed after the first touch of the new process",
                                    {"scenario": sc, "inc": i["inc"], "t": h["t"]},
                                    {"site": "peering.clean", "shape": (
                                        "fresh record of a restarted operator deleted by its OWN clean() of the stale record of the same identity"
                                        if by == "itself" else
                                        "fresh record of a restarted operator deleted by a PEER's clean() aimed at the stale record of the same identity")})
                elif killer and prev is not None and H.live(prev, h["t"]):
                    # how old the killer's view was at least: the deleted record had been there since ... when the clean was issued
                    k0 = k - 1
                    while k0 > 0 and (H.ph[k0 - 1]["status"] or {}).get(i["identity"]) == prev:
                        k0 -= 1
                    life = int(prev.get("lifetime", 60))
                    old_view = killer[0]["t_issue"] - H.ph[k0]["t"] >= (min(5, life - 1) if life >= 2 else 0.5) - 4 * LAT
                    ctx.oracle_fail(f"the fresh record of running operator {i['name']} (lastseen {prev.get('lastseen')}, lifetime "
                                    f"{prev.get('lifetime')}) was deleted at {h['t']} by {'itself' if killer[0]['who'] == i['who'] else killer[0]['who']}"
                                    f", which judged it dead from an older view",
                                    {"scenario": sc, "inc": i["inc"], "t": h["t"]},
                                    {"site": "peering.clean", "shape": "fresh record of a running operator deleted by a peer",
                                     "regime": "late-delivery" if (H.late or old_view) else "timely"})
                else:
                    fail(f"the record of running operator {i['name']} is absent from the peering object during [{h['t']}, {seg_end})"
                         + (f"; its keep-alive requests were failing (injected API faults) during "
                            f"{[(a, b) for (a, b, own, _hs) in H.windows.get(i['inc'], []) if own]}: that excuses the time of the "
                            f"failing requests and what the code needs to notice, after which it must have renewed the record or stopped"
                            if H.windows.get(i["inc"]) else ""),
                         "renewal: record of a running operator absent", inc=i["inc"], t=h["t"])
                break
            d = H.deadline(r)
            if d is not None and d <= seg_end and not (d == seg_end and seg_end == t_to):
                if H.excused(i["inc"], max(d, h["t"]), seg_end):
                    # expired WHILE the renewal was failing (injected faults): no code can renew through a failing API; what it
                    # must do is get through at the next attempt or stop - within the window
                    stats["expired_in_fault_window"] = stats.get("expired_in_fault_window", 0) + 1
                    continue
                fail(f"the record of running operator {i['name']} (lastseen {r.get('lastseen')}, lifetime {r.get('lifetime')}) "
                     f"expired at {d} before it was renewed (next version at {seg_end})"
                     + (f"; its keep-alive requests were failing (injected API faults) during "
                        f"{[(a, b) for (a, b, own, _hs) in H.windows.get(i['inc'], []) if own]}: that excuses the time of the failing "
                        f"requests and what the code needs to notice, after which it must have renewed the record or stopped "
                        f"(it did neither: it runs on, its record dead, until {seg_end})" if H.windows.get(i["inc"]) else ""),
                     "renewal: record of a running operator expired before renewal", inc=i["inc"], t=d)
                break
            stats["renewals"] += 1

    # ---- (D) withdrawal on graceful exit ------------------------------------------------------------------------------
    for i in incs:
        if i["t_stopped"] is None:
            if i["t_stop_req"] is not None and H.t_end - i["t_stop_req"] > 30 and i["inc"] not in H.t_fail:
                pausing = [g for g in tr["toggles"] if g["inc"] == i["inc"] and g["set"] == "any" and g["kind"] == "turn" and g["state"]
                           and abs(g["t"] - i["t_stop_req"]) <= 2 * LAT]
                if pausing:
                    ctx.oracle_fail(f"operator {i['name']} was asked to stop at {i['t_stop_req']}, the very moment it got paused (watch request in "
                                    f"flight): its resource watcher swallowed the cancellation and the stop never finishes",
                                    {"scenario": sc, "inc": i["inc"]},
                                    {"site": "api.stream", "shape": "graceful stop coinciding with a pause never finishes"})
                else:
                    fail(f"operator {i['name']} did not finish a graceful stop within 30 s", "graceful stop does not finish", inc=i["inc"])
            continue
        others = [j for j in incs if j is not i and j["identity"] == i["identity"] and H.running(j, i["t_stopped"])]
        st, _ = H.status_at(i["t_stopped"])
        if not others:
            stats["withdrawals"] += 1
            if i["identity"] in st:
                mine = [q for q in tr["requests"] if q["res"] == "peering" and q["method"] == "PATCH" and q["who"] == i["who"]
                        and q.get("response") == 200 and q["t"] >= i["t_stop_req"]
                        and i["identity"] in ((q.get("payload") or {}).get("status") or {})]
                tried = [q for q in tr["requests"] if q["res"] == "peering" and q["method"] == "PATCH" and q["who"] == i["who"]
                         and q["t"] >= i["t_stop_req"] and i["identity"] in ((q.get("payload") or {}).get("status") or {})
                         and ((q.get("payload") or {}).get("status") or {})[i["identity"]] is None]
                if tried and not any(q.get("response") == 200 for q in tried) and all(q.get("injected") or q.get("response") == "dead-session"
                                                                                     or not isinstance(q.get("response"), int) for q in tried):
                    stats["withdrawals_lost_to_api_errors"] = stats.get("withdrawals_lost_to_api_errors", 0) + 1
                    continue            # the API (an injected fault of the scenario) refused every withdrawal attempt: the record can
                    #                     only expire (environment, not kopf). A withdrawal the API refuses on its merits (409, 4xx)
                    #                     is the operator's: it asked for something else than "remove my record"
                vals = [q["payload"]["status"][i["identity"]] for q in mine]
                # in LANDING order: the withdrawal, then a record of its own written by the operator itself
                own_w = [w for w in tr.get("writes", []) if w["who"] == i["who"] and isinstance(w["patch"], dict)
                         and i["identity"] in w["patch"] and w["t"] >= i["t_stop_req"] - 2.0]
                k_none = next((k for k, w in enumerate(own_w) if w["patch"][i["identity"]] is None), None)
                back = [w for w in own_w[k_none + 1:] if w["patch"][i["identity"]] is not None] if k_none is not None else []
                t_wd = sim_c13.ticks(own_w[k_none]["t_issue"]) if k_none is not None else None
                in_flight = [x for x in tr.get("touches", []) if x["inc"] == i["inc"] and x["in_call"] and t_wd is not None
                             and sim_c13.ticks(i["t_stop_req"]) - 5 * TPS <= x["t"] <= t_wd]
                if back and in_flight:
                    ctx.oracle_fail(f"operator {i['name']} was asked to stop at {i['t_stop_req']} while the self-touch of a process_peering_event "
                                    f"call (its sleep to a blocker's deadline had just ended, touch issued at {in_flight[-1]['t'] / TPS}) was in "
                                    f"flight; the withdrawal (issued {own_w[k_none]['t_issue']}, applied {own_w[k_none]['t']}) overtook it, the "
                                    f"self-touch was applied at {back[0]['t']}: the record outlives the operator (gone at {i['t_stopped']})",
                                    {"scenario": sc, "inc": i["inc"]},
                                    {"site": "peering.process_peering_event", "shape": "record re-added by a self-touch in flight when the withdrawal was issued"})
                elif None in vals and any(v is not None for v in vals[vals.index(None) + 1:]):
                    ctx.oracle_fail(f"operator {i['name']} withdrew its record on exit, then a sleeping process_peering_event woke up and "
                                    f"touched it back; the record outlives the operator (gone at {i['t_stopped']})",
                                    {"scenario": sc, "inc": i["inc"]},
                                    {"site": "peering.process_peering_event", "shape": "record re-added by a late self-touch after the withdrawal"})
                elif back:
                    fail(f"operator {i['name']} exited gracefully at {i['t_stopped']} but its record is still in the peering object: its "
                         f"withdrawal (sent {own_w[k_none]['t_issue']}, applied {own_w[k_none]['t']}) was overtaken by a write of its own "
                         f"record that it had sent earlier, at {back[0]['t_issue']}, and that arrived at {back[0]['t']} - after the "
                         f"withdrawal: the record is back with lifetime {back[0]['patch'][i['identity']].get('lifetime')} s and outlives "
                         f"the operator", "withdrawal: own record written back after the withdrawal of a graceful exit", inc=i["inc"])
                else:
                    fail(f"operator {i['name']} exited gracefully at {i['t_stopped']} but its record is still in the peering object",
                         "withdrawal: record left behind by a graceful exit", inc=i["inc"])

    # ---- (D2) "removes it on graceful exit" - FOR GOOD: once the graceful exit has completed, nothing the gone operator sent
    # earlier puts a record back under its name (a renewal still on its way that arrives after the withdrawal - before or after
    # the process has ended - makes the peers wait for an operator that is not there, for a whole lifetime). Judged on the
    # peering object itself and on the fake API's write log (who wrote); not while the same identity runs again -----------------
    for i in incs:
        if i["t_stopped"] is None:
            continue
        again = [j["t_start"] for j in incs if j is not i and j["identity"] == i["identity"] and j["t_start"] >= i["t_stop_req"]]
        t_hi = min(again + [H.t_end])
        own_w = [w for w in tr.get("writes", []) if w["who"] == i["who"] and isinstance(w["patch"], dict) and i["identity"] in w["patch"]]
        wd = [w for w in own_w if w["patch"][i["identity"]] is None and w["t"] >= i["t_stop_req"]]
        if not wd:
            continue            # (no withdrawal landed: clause D's business - refused by an injected fault, or left behind)
        late = [w for w in own_w if w["patch"][i["identity"]] is not None and wd[0]["t"] <= w["t"] < t_hi
                and (w["t"] > wd[0]["t"] or own_w.index(w) > own_w.index(wd[0]))]
        stats["withdrawals_final"] = stats.get("withdrawals_final", 0) + 1
        if late and not (late[0]["t"] <= i["t_stopped"] and i["identity"] in H.status_at(i["t_stopped"])[0]):
            # (landed before the exit completed and still there at that moment: reported - and classified - by clause D)
            w = late[0]
            ctx.oracle_fail(f"operator {i['name']} withdrew its record (applied {wd[0]['t']}) and exited gracefully at {i['t_stopped']}; a write "
                            f"of its own record that it had sent at {w['t_issue']} was applied at {w['t']}, AFTER the withdrawal: the record "
                            f"({w['patch'][i['identity']]}) is back and outlives the operator",
                            {"scenario": sc, "inc": i["inc"], "t": w["t"]},
                            {"site": "peering", "shape": "withdrawal: own record written back after the withdrawal of a graceful exit"})

    # ---- (Y) FAIL-STOP completes: an operator one of whose guarded tasks has failed (a keep-alive or an observer's call whose API
    # request failed for good, whatever else) does not stay: the operator task ends - no half-alive operator, running without
    # its pinger / observer (its record withdrawn or expiring, its peers resuming beside it) --------------------------------------
    for i in incs:
        tf = H.t_fail.get(i["inc"])
        if tf is None or i["t_killed"] is not None or i["t_stop_req"] is not None:
            continue
        stats["fail_stop_owed"] = stats.get("fail_stop_owed", 0) + 1
        if (i["t_exit"] is None and H.t_end - tf > 30) or (i["t_exit"] is not None and i["t_exit"] - tf > 30):
            g0 = next(g for g in tr["guard_failures"] if g["inc"] == i["inc"])
            fail(f"task '{g0['task']}' of operator {i['name']} ended at {tf} with {g0['exc']}, yet the operator "
                 f"{'still runs at ' + str(H.t_end) if i['t_exit'] is None else 'ran on until ' + str(i['t_exit'])} (without that task)",
                 "fail-stop: the operator stays although one of its tasks has failed", inc=i["inc"], t=tf)

    # ---- (T) "exactly the highest-priority one ends up active", whatever the cause: two RUNNING operators are not both active
    # (un-paused) beside each other for longer than a hand-over takes. Not counted: the time in which a keep-alive of one of the two
    # was failing (a fault window: its record may expire, nobody can help that) and W after it. Timely regime (else: F4) -----------
    Wh = H.W + 1.0
    act_iv: dict[int, list[tuple[float, float]]] = {}
    for i in incs if timely else []:
        made = H.made.get(i["inc"])
        if made is None:
            continue
        t_to = H.end_of(i)
        cur_a = None
        out_iv = []
        for (t, v) in [(t, v) for (t, v) in H.pz.get(i["inc"], []) if t >= made] + [(t_to, True)]:
            if t >= t_to:
                t, v = t_to, True
            if not v and cur_a is None:
                cur_a = t
            elif v and cur_a is not None:
                if t > cur_a:
                    out_iv.append((cur_a, t))
                cur_a = None
        act_iv[i["inc"]] = out_iv
    done_pairs = set()
    for i1 in incs if timely else []:
        for i2 in incs:
            if i1["inc"] >= i2["inc"] or (i1["name"], i2["name"]) in done_pairs:
                continue
            for (a1, b1) in act_iv.get(i1["inc"], []):
                for (a2, b2) in act_iv.get(i2["inc"], []):
                    lo, hi = max(a1, a2), min(b1, b2)
                    if hi - lo <= Wh:
                        continue
                    # what is left of [lo, hi] outside the fault windows (+ W) of the two
                    cuts = sorted((a, b + H.W) for inc in (i1["inc"], i2["inc"]) for (a, b, own, _hs) in H.windows.get(inc, []) if own)
                    pieces, x = [], lo
                    for (a, b) in cuts:
                        if a > x:
                            pieces.append((x, min(a, hi)))
                        x = max(x, b)
                        if x >= hi:
                            break
                    if x < hi:
                        pieces.append((x, hi))
                    stats["both_active_overlaps"] = stats.get("both_active_overlaps", 0) + 1
                    bad = [(x0, x1) for (x0, x1) in pieces if x1 - x0 > Wh]
                    if bad and (i1["name"], i2["name"]) not in done_pairs:
                        done_pairs.add((i1["name"], i2["name"]))
                        st0, _ = H.status_at(bad[0][0])
                        recs = {ix["name"]: (None if st0.get(ix["identity"]) is None else
                                             ("live" if H.live(st0[ix["identity"]], bad[0][0]) else "EXPIRED")) for ix in (i1, i2)}
                        fail(f"operators {i1['name']} (priority {i1['priority']}) and {i2['name']} (priority {i2['priority']}) are both running "
                             f"and both active (un-paused) during [{bad[0][0]}, {bad[0][1]}) - {bad[0][1] - bad[0][0]} s, a hand-over takes at "
                             f"most {Wh} s; their records at the beginning: {recs}",
                             "two running operators active beside each other", t=bad[0][0])

    # ---- (E) dead records of others get cleaned ----------------------------------------------------------------------
    seen_rec: set[tuple] = set()
    for k, h in enumerate(H.ph if timely else []):
        for ident, r in (h["status"] or {}).items():
            key = (ident, json.dumps(r, sort_keys=True))
            if key in seen_rec:
                continue
            seen_rec.add(key)
            d = H.deadline(r)
            if d is None:
                continue
            t_dead = max(d, h["t"])
            # who runs (with its peering toggle made) throughout [t_dead, t_dead + bound]?
            best = None
            for i in incs:
                if i["inc"] not in H.made or i["lifetime"] < 1 or i["identity"] == ident:
                    continue            # nobody cleans its own record
                bound = max(1, i["lifetime"] - 5) + 4 * LAT + H.W
                t_to = H.end_of(i)
                if H.made[i["inc"]] + 1.0 <= t_dead and t_dead + bound < t_to:
                    best = bound if best is None else min(best, bound)
            if best is None:
                continue
            gone = None
            for h2 in H.ph[k:]:
                if (h2["status"] or {}).get(ident) != r:
                    gone = h2["t"]
                    break
            stats["dead_cleaned"] += 1
            if (gone is None or gone > t_dead + best) and any(h["cls"] == "clean" and t_dead <= h["t"] <= t_dead + best for h in H.hits):
                # a clean() was answered by an injected fault (a 409 is taken for "changed meanwhile": the next event re-evaluates)
                stats["cleanup_lost_to_api_errors"] = stats.get("cleanup_lost_to_api_errors", 0) + 1
                continue
            if gone is None or gone > t_dead + best:
                tried = [w for w in tr.get("refused", []) if isinstance(w.get("patch"), dict) and ident in w["patch"]
                         and t_dead <= w["t"] <= t_dead + best]
                if tried:
                    # since 054d47d a clean() is applied only to the version it judged: every attempt came too late
                    ctx.oracle_fail(f"record {ident} ({r}) is dead since {t_dead} but was still in the peering object at {t_dead + best}"
                                    f"{'' if gone is None else f' (gone at {gone})'}: {len(tried)} clean() calls of running operators named it in "
                                    f"that time and ALL were refused with 409 - the peering object (keep-alives of {len(sc['ops'])} operators) "
                                    f"had changed again before each of them arrived (first: sent for version {tried[0]['rv_sent']}, object at "
                                    f"{tried[0]['rv_before']}, by {tried[0]['who']} at {tried[0]['t']})",
                                    {"scenario": sc, "ident": ident, "t": t_dead}, dict(STARVED_CLEAN_SIG))
                else:
                    fail(f"record {ident} ({r}) is dead since {t_dead} but was still in the peering object at {t_dead + best} "
                         f"although an operator ran all that time", "cleanup: dead record not removed", ident=ident, t=t_dead)

    # ---- (F) effects of a pause ---------------------------------------------------------------------------------------
    reqs_by_who: dict[str, list[dict]] = {}
    for r in tr["requests"]:
        if r["res"] == "kex":
            reqs_by_who.setdefault(r["who"], []).append(r)
    kh = tr["kex_history"]

    calls_by_inc: dict[int, list[dict]] = {}
    for c in tr["calls"]:
        calls_by_inc.setdefault(c["inc"], []).append(c)
    for i in incs:
        ev = H.pz.get(i["inc"], [])
        made = H.made.get(i["inc"])
        if made is None:
            continue
        t_to = H.end_of(i)
        # maximal paused intervals (p0, p1)
        intervals: list[tuple[float, float]] = []
        cur = None
        for (t, v) in ev:
            if t < made:
                continue
            if v and cur is None:
                cur = t
            elif not v and cur is not None:
                intervals.append((cur, t))
                cur = None
        if cur is not None:
            intervals.append((cur, t_to))
        intervals = [(a, min(b, t_to)) for a, b in intervals if a < t_to]
        mine = reqs_by_who.get(i["who"], [])
        for (p0, p1) in intervals:
            stats["paused_intervals"] += 1
            for r in mine:
                if r["method"] == "GET" and p0 < r["t"] < p1:
                    fail(f"paused operator {i['name']} issued a {'watch' if r['watch'] else 'list'} request for the handled resource at "
                         f"{r['t']} (paused during ({p0}, {p1}))", "pause: list/watch request while paused", inc=i["inc"], t=r["t"])
                    break
            for r in mine:
                if r["watch"] and r["t"] <= p0 and r.get("response") == 200:
                    ca = r.get("closed_at")
                    if (ca is None and r.get("still_open") and p1 - p0 > 4 * LAT) or (ca is not None and ca > max(p0, r["t"] + LAT) + 1e-9 and ca < p1):
                        fail(f"operator {i['name']} paused at {p0} but its watch stream opened at {r['t']} stayed open until {ca}",
                             "pause: watch stream not closed", inc=i["inc"], t=p0)
                        break
            # what it had received by requests issued before the pause began
            got: set[tuple] = set()
            for r in mine:
                if r["t"] > p0 or r.get("response") != 200:
                    continue
                if r["watch"]:
                    for d in r.get("delivered", []):
                        if d[0] <= p0 + LAT:        # ... and delivered before it (a stream left open delivers on)
                            got.add((d[2], d[3]))
                elif r["method"] == "GET":
                    for name, v in r.get("listed", []):
                        got.add((name, v))
            for c in calls_by_inc.get(i["inc"], []):
                if c["kind"] in ("create", "update") and p0 < c["t"] < p1 and (c["name"], c["rv"]) not in got:
                    fail(f"paused operator {i['name']} ran handler {c['id']} at {c['t']} on {c['name']}@{c['rv']}, a version it had not "
                         f"received before the pause began at {p0}", "pause: handler run for an event not queued before the pause",
                         inc=i["inc"], t=c["t"])
                    break
            grace = 2.0
            for c in calls_by_inc.get(i["inc"], []):
                # timers are stopped like the daemons: none fires in a pause (after the same grace)
                if c["kind"] == "timer" and p0 + grace < c["t"] < p1:
                    fail(f"timer of paused operator {i['name']} fired at {c['t']} on {c['name']}; paused since {p0}",
                         "pause: timer not stopped", inc=i["inc"], t=c["t"])
                    break
            for c in calls_by_inc.get(i["inc"], []):
                if c["kind"] != "daemon":
                    continue
                t1 = c.get("t_end")
                lo, hi = max(c["t"], p0 + grace), (p1 if t1 is None else min(t1, p1))
                if lo < hi:
                    fail(f"daemon of paused operator {i['name']} (started {c['t']}) still runs at {lo}; paused since {p0}",
                         "pause: daemon not stopped", inc=i["inc"], t=lo)
                    break
        # ---- (R) "it resumes": once the operator has been active, undisturbed, for W + 3 s, the daemon of every object it serves
        # runs again (the re-listing that follows the un-pausing spawns it). Not judged when a daemon of that object was still on
        # its way out when the operator resumed (kopf documents that a re-pausing faster than the daemon stops delays the respawn).
        if timely and sc.get("daemon", True):
            need_r = H.W + 3.0
            act: list[tuple[float, float]] = []
            cur_a = None
            for (t, v) in [(t, v) for (t, v) in ev if t >= made] + [(t_to, True)]:
                if not v and cur_a is None and t < t_to:
                    cur_a = t
                elif v and cur_a is not None:
                    act.append((cur_a, min(t, t_to)))
                    cur_a = None
            dcalls = [c for c in calls_by_inc.get(i["inc"], []) if c["kind"] == "daemon"]
            for (a0, a1) in act:
                tchk = a0 + need_r
                if a1 - a0 <= need_r or tchk >= H.t_end:
                    continue            # (strictly longer: at a1 itself the next pause is already ending the daemon)
                for name, hh in kh.items():
                    if not hh or hh[0]["t"] > a0 or any(h.get("event") == "DELETED" for h in hh):
                        continue
                    mine_d = [c for c in dcalls if c["name"] == name]
                    if any(c["t"] < a0 and (c.get("t_end") is None or c["t_end"] > a0) for c in mine_d):
                        continue
                    stats["daemons_owed"] = stats.get("daemons_owed", 0) + 1
                    if not any(c["t"] <= tchk and (c.get("t_end") is None or c["t_end"] > tchk) for c in mine_d):
                        fail(f"operator {i['name']} is active (un-paused) since {a0}, yet at {tchk} the daemon of object {name} does not run "
                             f"(its runs: {[(c['t'], c.get('t_end')) for c in mine_d][-3:]})", "resume: daemon not running again after the pause",
                             inc=i["inc"], t=tchk)
                        break

        # nothing handled twice by one operator process
        seen: dict[tuple, dict] = {}
        for c in calls_by_inc.get(i["inc"], []):
            if c["kind"] not in ("create", "update"):
                continue
            key = (c["uid"], c["id"], c["x"] if c["kind"] == "update" else None)
            if key in seen:
                c0 = seen[key]
                what = (f"operator {i['name']} ran handler {c['id']} twice for the same change of {c['name']} (x={c['x']}): "
                        f"at {c0['t']} (until {c0.get('t_end')}) and at {c['t']}")
                paused_between = any(v and c0["t"] <= t <= c["t"] for (t, v) in H.pz.get(i["inc"], []))
                # the second run acts on a version of the object that was already superseded when it started, while the operator is paused
                stale_while_paused = bool(H.paused_at(i["inc"], c["t"])) and str(c.get("rv")).isdigit() and any(
                    h["t"] <= c["t"] and str(h["rv"]).isdigit() and int(h["rv"]) > int(c["rv"]) for h in kh.get(c["name"], []))
                if c0.get("t_end") is not None and c0["t_end"] <= c["t"] and ((c.get("rv") == c0.get("rv") and paused_between) or stale_while_paused):
                    # the SAME version of the object, after the first run had ended, with a pause in between: a stale event queued
                    # behind the first run, acted upon when the wait for the own patch's version timed out (it cannot arrive: the
                    # pause has closed the stream)
                    ctx.oracle_fail(what + f": on the stale resourceVersion {c.get('rv')} (first run: {c0.get('rv')}); the operator was paused, so its own patch "
                                    f"(which records the success) was never seen, and after settings.persistence.consistency_timeout the "
                                    f"stale queued event was handled as if it were consistent",
                                    {"scenario": sc, "inc": i["inc"], "t": c["t"]},
                                    {"site": "processing.consistency", "shape": "a handler that has succeeded is executed again after a pause (stale queued event, consistency timeout)"})
                elif any(c3["inc"] != i["inc"] and c3["uid"] == c["uid"] and c3["kind"] in ("create", "update")
                         and c3.get("t_end") is not None and c0["t"] <= c3["t_end"] <= c["t"] and H.paused_at(c3["inc"], c3["t"])
                         and str(c3.get("rv")).isdigit() and str(c0.get("rv")).isdigit() and int(c3["rv"]) < int(c0["rv"])
                         for c3 in tr["calls"]):
                    # the same root seen from the active operator: a PAUSED peer acted on a stale queued event after the consistency
                    # timeout (its stream is closed, the awaited version cannot come) and stored ITS handling state - computed from
                    # the old body - over the active operator's, which then sees its own finished change as new
                    ctx.oracle_fail(what + ": a paused peer ran the handler on an older version of the object in between (stale queued event, "
                                    "consistency timeout faked while paused) and overwrote the stored handling state",
                                    {"scenario": sc, "inc": i["inc"], "t": c["t"]},
                                    {"site": "processing.consistency", "shape": "a handler that has succeeded is executed again after a pause (stale queued event, consistency timeout)"})
                elif H.late and any(c3["inc"] != i["inc"] and c3["uid"] == c["uid"] and c3["kind"] in ("create", "update")
                                    and c3.get("t_end") is not None and c0["t"] <= c3["t_end"] <= c["t"] for c3 in tr["calls"]):
                    # two operators active at once (late regime, F4): the other one finished a handler of the same object in
                    # between and stored ITS view of the handling state (last-handled configuration, progress) over this one's
                    ctx.oracle_fail(what + ": another operator, active at the same time (peering events arrive later than a keep-alive "
                                    "margin), handled the same object in between and overwrote the stored handling state",
                                    {"scenario": sc, "inc": i["inc"], "t": c["t"]}, dict(STALE_VERDICT_SIG))
                else:
                    fail(what, "handler executed twice for one change by one operator", inc=i["inc"], t=c["t"])
                break
            seen[key] = c

    # ---- (H) STRICT: one change is not handled by two operators that both count as active -------------------------------
    # (also in the exit window, around every pause/resume, in every regime; tolerated only: the first one was killed, or
    #  one of the two was paused at that moment = the property's own "events already queued" exception)
    def settling(i: dict, t: float) -> bool:
        """Who blocks operator i (by the peering object itself) has changed within the last W before t."""
        b = H.blockers(i, t)
        return any(H.blockers(i, p) != b for p in [t - H.W] + H.change_points(t - H.W, t))

    by_change: dict[tuple, list] = {}
    for c in tr["calls"]:
        if c["kind"] in ("create", "update"):
            by_change.setdefault((c["uid"], c["id"], c["x"] if c["kind"] == "update" else None), []).append(c)
    for key, cs in by_change.items():
        cs = sorted(cs, key=lambda c: c["t"])
        reported = False
        for n2, c2 in enumerate(cs):
            for c1 in cs[:n2]:
                if c1["inc"] == c2["inc"] or reported:
                    continue
                i1, i2 = by_inc[c1["inc"]], by_inc[c2["inc"]]
                gone1 = [x for x in (i1["t_killed"], H.t_fail.get(i1["inc"])) if x is not None and x <= c2["t"]]
                # the first handling was cut off by its operator's exit timeout (not finished when the operator was gone): at-least-once
                cut1 = i1["t_stopped"] is not None and i1["t_stopped"] <= c2["t"] and (c1.get("t_end") is None or c1["t_end"] >= i1["t_stopped"] - LAT)
                if cut1:
                    continue
                tf1 = H.t_fail.get(i1["inc"])
                if (tf1 is not None and tf1 <= c2["t"] and i1["inc"] in fail_stops and "keep-alive" in fail_stops[i1["inc"]]["task"]
                        and (i1["t_killed"] is None or i1["t_killed"] > c2["t"]) and i1["t_stop_req"] is None
                        and c1["t"] <= c2["t"] and (c1.get("t_end") is None or c1["t_end"] > max(tf1, c2["t"]))
                        and not H.paused_at(i1["inc"], c1["t"]) and not H.paused_at(i2["inc"], c2["t"])
                        and not (H.expected_paused(i2, c2["t"]) and settling(i2, c2["t"]))):
                    # FAIL-STOP of the first one: its keep-alive failed (an injected API fault), the pinger's own `finally` withdrew
                    # the record AT ONCE, and only then did the orchestrator begin to stop the handling: the order that 26a293c
                    # established for the graceful stop (handling first, withdrawal last) is not kept on this way out
                    reported = True
                    ctx.oracle_fail(f"change {key[1]}(x={key[2]}) of {c1['name']} is being handled by {i1['name']} since {c1['t']} (until {c1.get('t_end')}); "
                                    f"its keep-alive failed at {tf1} (the API refused it: injected fault), keepalive()'s finally withdrew the "
                                    f"record at once, {i2['name']} resumed and handles the same change at {c2['t']} - {i1['name']} is still at it "
                                    f"(the operator task ends at {i1.get('t_exit')})",
                                    {"scenario": sc, "t": c2["t"]}, dict(FAILSTOP_ORDER_SIG))
                    continue
                if gone1 or H.paused_at(i1["inc"], c1["t"]) or H.paused_at(i1["inc"], c2["t"]) or H.paused_at(i2["inc"], c2["t"]):
                    continue
                # judged by the ground truth (the peering object itself), not by what the operators believed:
                # (i) one of the two ought to be paused but the peer blocking it appeared less than W ago: they do not "see each
                #     other" yet (the property's qualifier);
                # (ii) the first one was rightly active, and was told to pause while it worked ("events already queued").
                # An operator that is active although its blocker has been live all along (old view: F4) is NOT excused.
                unseen = (H.expected_paused(i1, c1["t"]) and settling(i1, c1["t"])) or (H.expected_paused(i2, c2["t"]) and settling(i2, c2["t"]))
                right1 = (not H.expected_paused(i1, c1["t"])) or settling(i1, c1["t"])
                handover = right1 and any(v and c1["t"] <= t <= c2["t"] + H.W for (t, v) in H.pz.get(i1["inc"], []))
                # (iii) the first one is on its way out (asked to stop: its peering observer is stopped, it can no longer be told to
                #      pause) and an operator that OUTRANKS it appeared after it had started this handling: the newcomer need not
                #      wait for anybody of lower priority, the leaver's handling in flight is "already queued" and ends within
                #      queueing.exit_timeout. (The reverse - a successor of LOWER priority resuming beside the leaver - is F7.)
                outranked_leaver = (right1 and i1["t_stop_req"] is not None and i1["t_stop_req"] <= c2["t"]
                                    and i2["priority"] >= i1["priority"] and c1["t"] <= H.made.get(i2["inc"], i2["t_start"]))
                # (iv) the record of one of the two could not be written / renewed at that time: its keep-alive requests were failing
                #      (injected API faults; the window and W after it) - they do not see each other, no code can help that
                blind = H.in_window(i1["inc"], c1["t"]) or H.in_window(i1["inc"], c2["t"]) or H.in_window(i2["inc"], c2["t"]) \
                    or H.in_window(i2["inc"], c1["t"])
                if unseen or handover or outranked_leaver or blind:
                    continue
                reported = True
                what = (f"change {key[1]}(x={key[2]}) of {c1['name']} handled by {i1['name']} at {c1['t']} (until {c1.get('t_end')}) AND by "
                        f"{i2['name']} at {c2['t']}, both active at those moments")
                # one of the two is in its exit window (asked to stop, record withdrawn, queues still depleting) - whichever started first
                ex = [ix for ix in (i1, i2) if ix["t_stop_req"] is not None and ix["t_stop_req"] <= c2["t"]
                      and (ix["t_stopped"] is None or c2["t"] <= ix["t_stopped"])]
                if ex:
                    ctx.oracle_fail(what + f": {ex[0]['name']} was asked to stop at {ex[0]['t_stop_req']} and went on handling until "
                                    f"{ex[0]['t_stopped']}; its record was withdrawn before that, the successor resumed meanwhile",
                                    {"scenario": sc, "t": c2["t"]},
                                    {"site": "orchestration.orchestrator", "shape": "the successor handles a change the exiting operator is still handling"})
                elif H.late:
                    ctx.oracle_fail(what + " (peering events arrive later than a keep-alive margin: one of the two judged the other dead "
                                    "from an old view and was active beside it until its next event; no record was deleted)",
                                    {"scenario": sc, "t": c2["t"]}, dict(STALE_VERDICT_SIG))
                else:
                    fail(what, "one change handled by two active operators", t=c2["t"])

    # ---- (G) a change made in a quiet period is handled exactly once, by the active operator ---------------------------
    Wg = H.W + 1.0
    moments = sorted([x for i in incs for x in (i["t_start"], i["t_stop_req"], i["t_stopped"], i["t_killed"], H.t_fail.get(i["inc"]))
                      if x is not None] + [g["t"] for g in tr["toggles"] if g["set"] == "any"])
    any_kill = any(i["t_killed"] is not None for i in incs) or bool(H.t_fail)
    for e in sc["timeline"] if timely else []:
        if e[1] != "edit":
            continue
        te, name, xv = e[0], e[2], e[3]["spec"]["x"]
        if te - Wg < 0 or te + Wg + 8 * float(sc.get("handler_delay") or 0) >= H.t_end:
            continue
        lo = bisect.bisect_left(moments, te - Wg)
        if lo < len(moments) and moments[lo] <= te + Wg:
            continue            # something about who runs / who is paused moved near the edit
        busy = 0.0          # a busy operator (handlers take time, one object is handled serially) gets to the edit later
        if sc.get("handler_delay"):
            busy = float(sc["handler_delay"]) * (1 + sum(1 for e2 in sc["timeline"] if e2[1] in ("edit", "create") and te - 60 <= e2[0] <= te))
        # (kopf handles the latest state of an object: an edit that is followed by another one before the operator gets to it - it may
        #  still be busy with an earlier change - is legitimately covered by the handling of the later one)
        if any(e2[1] == "edit" and e2[2] == name and te < e2[0] <= te + Wg + busy for e2 in sc["timeline"]):
            continue
        present = [i for i in incs if i["inc"] in H.made and i["t_start"] < te - Wg and H.end_of(i) > te + Wg + busy]
        actives = [i for i in present if H.paused_at(i["inc"], te) is False]
        now_active = [i for i in incs if i["inc"] in H.made and H.made[i["inc"]] <= te < H.end_of(i) and H.paused_at(i["inc"], te) is False]
        calls = [c for c in tr["calls"] if c["kind"] == "update" and c["name"] == name and c["x"] == xv]
        near = [c for c in calls if te <= c["t"] <= te + Wg + busy]
        stats["quiet_edits"] = stats.get("quiet_edits", 0) + 1
        if len(actives) == 1 and [i["inc"] for i in now_active] == [actives[0]["inc"]]:
            mine = [c for c in near if c["inc"] == actives[0]["inc"]]
            if len(mine) == 0:      # (more than once: reported - and classified - by the clause "nothing handled twice" above)
                fail(f"edit x={xv} at {te}: the only active operator {actives[0]['name']} did not run the update handler",
                     "quiet edit not handled by the active operator", t=te)
            # (that nobody else handles it as well is clause (H), for every edit)
        elif not now_active and [c for c in near if c["t"] <= te + Wg]:
            near = [c for c in near if c["t"] <= te + Wg]
            fail(f"edit x={xv} at {te}: every running operator is paused, yet {[(c['op'], c['t']) for c in near]} handled it",
                 "quiet edit handled although every operator is paused", t=te)

    # ---- (G2) the last change of an object is not held back for ever: once an operator has been active, undisturbed, for long
    # enough after it (e.g. after a pause during which the change was made), somebody has handled it -----------------------------
    ctimeout = 5.0          # settings.persistence.consistency_timeout (default): a worker may wait that long for its own patch's version
    for e in sc["timeline"] if timely else []:
        if e[1] != "edit":
            continue
        te, name, xv = e[0], e[2], e[3]["spec"]["x"]
        if any(e2[1] == "edit" and e2[2] == name and e2[0] > te for e2 in sc["timeline"]):
            continue            # only the LAST change of an object (kopf handles the latest state)
        busy = 0.0
        if sc.get("handler_delay"):
            busy = float(sc["handler_delay"]) * (1 + sum(1 for e2 in sc["timeline"] if e2[1] in ("edit", "create") and te - 60 <= e2[0] <= te))
        need = Wg + ctimeout + busy + 1.0
        served = False
        for i in incs:
            if i["inc"] not in H.made or served:
                continue
            # maximal intervals in which i is running, made, and active
            t0 = max(H.made[i["inc"]], te)
            t1 = H.end_of(i)
            ev = [(t, v) for (t, v) in H.pz.get(i["inc"], []) if t0 < t < t1]
            cur_t, cur_v = t0, H.paused_at(i["inc"], t0)
            for (t, v) in ev + [(t1, True)]:
                if cur_v is False and t - cur_t >= need and cur_t + need < H.t_end:
                    served = True
                    break
                if v != cur_v:
                    cur_t, cur_v = t, v
        if not served:
            continue
        stats["last_edits_owed"] = stats.get("last_edits_owed", 0) + 1
        if not any(c["kind"] in ("create", "update") and c["name"] == name and c["x"] == xv and c["t"] >= te for c in tr["calls"]):
            fail(f"edit x={xv} of {name} at {te} is the object's last change; an operator was active, undisturbed, for more than {need} s "
                 f"after it, yet nobody ever ran a handler for it", "last change never handled although an operator was active long enough", t=te)
    return stats


# =================================================================================================
def _shape_of_call(status: Any, me: str, prio: int, toggle: Any, impl: Any) -> dict:
    n = len(status) if isinstance(status, (dict, list)) else -1
    if isinstance(impl, list):
        return {"n": min(n, 3), "err": impl[1], "toggle": toggle}
    if impl == "ignored":
        return {"ignored": True}
    return {"n": min(n, 3), "toggle": toggle, "cleaned": min(len(impl["cleaned"]), 2), "turned": impl["turned"],
            "paused": impl["paused"], "delays": min(len(impl["delays"]), 2),
            "sleep": "n/a" if "sleep" not in impl else ("none" if impl["sleep"] is None else "some"),
            "touch": impl.get("touch"), "own": isinstance(status, dict) and me in status}


def _run_pool(items: list[dict], wall: float) -> list[dict]:
    res = sim_c13.run_many(items, wall=wall)
    for k, (it, r) in enumerate(zip(items, res)):
        if "trace" not in r:        # a worker lost under load: once more, alone; a real stall repeats and is reported
            res[k] = sim_c13.run_many([it], wall=wall, jobs=1, batch=1)[0]
    for it, r in zip(items, res):
        if "trace" not in r:
            raise RuntimeError(f"simulation worker failed on {it.get('kind', 'history')} item: {str(r)[:3000]}")
        if isinstance(r["trace"], dict) and r["trace"].get("sim_error"):
            raise RuntimeError(f"simulation error: {r['trace']['sim_error']} in {json.dumps(it)[:1500]}")
        if isinstance(r["trace"], dict) and r["trace"].get("judge_error"):
            raise RuntimeError(f"judgement failed in the worker: {r['trace']['judge_error']}")
    return res


def check_direct(ctx: Ctx, cases: list[dict], reqs: list, impls: list, wheres: list, flags: list) -> None:
    batches = [{"kind": "direct", "cases": cases[k:k + 250]} for k in range(0, len(cases), 250)]
    results = _run_pool(batches, wall=120.0)
    k = 0
    for b, r in zip(batches, results):
        for case, res in zip(b["cases"], r["trace"]["results"]):
            k += 1
            if res["offgrid"]:
                ctx.count("direct", "offgrid-skipped")
                continue
            direct_oracle(ctx, case, res)
            if case.get("rv") is not None and any(rv != str(case["rv"]) for rv in res.get("clean_rv", [])):
                ctx.tie_fail(f"clean() named resourceVersion {res['clean_rv']} in its patch, the event it judged was at {case['rv']!r}: the "
                             f"model's conditional clean (the version of the judged view) is not what the code does",
                             {"direct_case": case, "result": _slim(res)})
            if not res.get("clean_ok", True):
                ctx.oracle_fail("clean() patched something else than {status: {dead identity: null}} of the configured peering object",
                                {"direct_case": case, "result": _slim(res)}, {"site": "peering.clean", "shape": "patch shape"})
            impl = direct_impl_view(case, res)
            reqs.append(decide_request(res["abs_status"], case["me"], case["prio"], case.get("autoclean", True),
                                       case.get("name_ok", True), case["toggle"], res["now"], res["now2"]))
            impls.append(impl)
            flags.append(res["interrupted"])
            wheres.append({"direct_case": case, "now": res["now"], "status": res["status"]})
            shape = _shape_of_call(res["status"], case["me"], case["prio"], case["toggle"], impl)
            ctx.case(key=shape, nontrivial=bool(res["status"]) and res["status"] != "__missing__",
                     sample={"case": case, "impl": impl} if k % 997 == 1 else None)
            ctx.count("direct.outcome", impl[1] if isinstance(impl, list) else ("ignored" if impl == "ignored" else
                      f"paused={impl['paused']},cleaned={min(len(impl['cleaned']), 2)},touch={impl.get('touch', 'interrupted')}"))
            ctx.count("direct.records", len(case["records"]) if case.get("status_mode", "dict") == "dict" else case["status_mode"])


def check_keepalive(ctx: Ctx) -> None:
    ka = [[L, j, "cancel" if (L + j) % 7 == 0 else "cancel_in_first_touch" if (L + j) % 7 == 1 else "stop"]
          for L in list(range(0, 131)) + [600, 3600, -4] + DAYS for j in range(5, 11)]
    touch = [[p, L, a] for p in (0, 7, -2) for L in [60, 1, 0, -3, 2] + DAYS for a in (None, 0, 5, 86400, 172801)]
    res = _run_pool([{"kind": "ka", "ka": ka, "touch": touch}], wall=120.0)[0]["trace"]
    reqs, impls, wh = [], [], []
    for r in res["ka"]:
        L, j = r["lifetime"], r["jitter"]
        ctx.case(key={"ka": [min(L, 12), j]}, nontrivial=True)
        ctx.count("keepalive.lifetime", "0" if L == 0 else "1" if L == 1 else "2-6" if L <= 6 else "7-15" if L <= 15 else ">15" if L < 86399 else ">=1day")
        if r["how"] == "cancel_in_first_touch":
            # stopped while the very first PATCH is in flight (the server may have applied it): the withdrawal must follow
            if r["touches"] != [None, 0]:
                ctx.oracle_fail(f"keepalive cancelled during its first touch made the touches {r['touches']}: no lifetime=0 withdrawal follows, "
                                f"although the first PATCH may have reached the server", {"keepalive": r},
                                {"site": "peering.keepalive", "shape": "no withdrawal on exit"})
            continue
        if r["bounds"] != [[5, 10]] or len(r["sleeps"]) != 1:
            ctx.tie_fail("keepalive no longer draws one jitter from randint(5, 10) per round", {"keepalive": r})
            continue
        s = r["sleeps"][0]
        # oracle, from the statement: renewed before it expires; withdrawn (lifetime=0) on every way out
        if L >= 1 and not (0 < s < L):
            ctx.oracle_fail(f"keepalive with lifetime {L} s sleeps {s} s between touches: the record expires before it is renewed",
                            {"keepalive": r}, {"site": "peering.keepalive", "shape": "period >= lifetime"})
        if r["touches"] != [None, 0]:
            ctx.oracle_fail(f"keepalive touched with lifetimes {r['touches']} (expected one regular touch, then lifetime=0 on exit)",
                            {"keepalive": r}, {"site": "peering.keepalive", "shape": "no withdrawal on exit"})
        reqs.append(["C13.kasleep", TPS, L, j])
        impls.append(sim_c13.ticks(s))
        wh.append({"keepalive": r})
    for r in res["touch"]:
        eff = r["lifetime"] if r["arg"] is None else r["arg"]
        ctx.case(key={"touch": [r["prio"], r["lifetime"], r["arg"]]}, nontrivial=True)
        if r["error"] is not None or r["n"] != 1:
            ctx.tie_fail("touch() did not issue exactly one patch", {"touch": r})
            continue
        if eff >= 1 and not (isinstance(r["value"], dict) and r["value"].get("lastseen") == r["now"]):
            ctx.oracle_fail("touch() with a positive lifetime did not write a record stamped now", {"touch": r},
                            {"site": "peering.touch", "shape": "no fresh record"})
        elif eff >= 1 and (r["value"].get("lifetime") != eff or r["value"].get("priority") != r["prio"]):
            ctx.oracle_fail(f"touch() wrote lifetime {r['value'].get('lifetime')} / priority {r['value'].get('priority')} into the record, "
                            f"the operator is configured with lifetime {eff} / priority {r['prio']}: peers compute another deadline than the "
                            f"one the operator renews for", {"touch": r}, {"site": "peering.touch", "shape": "written record differs from the configuration"})
        if eff == 0 and r["value"] is not None:
            ctx.oracle_fail("touch(lifetime=0) did not remove the record", {"touch": r}, {"site": "peering.touch", "shape": "no withdrawal"})
        reqs.append(["C13.touch", TPS, r["prio"], eff, r["now"]])
        impls.append(r["value"])
        wh.append({"touch": r})
    outs = ctx.driver.ask(reqs)
    for impl, out, w in zip(impls, outs, wh):
        ctx.compare("C13 keep-alive/touch", impl, out[1] if out and out[0] == "ok" else out, w)
    ctx.exhaustive = None


class Collector:
    """What `Ctx` offers to the per-history judgement, collected inside the worker process and merged by the parent."""

    def __init__(self) -> None:
        self.failures: list = []
        self.counts: dict[str, dict[str, int]] = {}
        self.cases: dict[str, list] = {}
        self.samples: list = []

    def oracle_fail(self, what: str, replay: Any, signature: dict | None = None) -> None:
        # a few of every KIND of failure (a history that fails one clause at every checkpoint must not hide another clause)
        shape = (signature or {}).get("shape")
        same = sum(1 for f in self.failures if f[0] == "oracle" and (f[3] or {}).get("shape") == shape)
        if same < 3 and len(self.failures) < 24:
            self.failures.append(["oracle", what, replay, signature])

    def tie_fail(self, what: str, replay: Any) -> None:
        if len(self.failures) < 8:
            self.failures.append(["tie", what, replay, None])

    def count(self, group: str, tag: Any, n: int = 1) -> None:
        g = self.counts.setdefault(group, {})
        g[str(tag)] = g.get(str(tag), 0) + n

    def case(self, key: Any = None, nontrivial: bool = False, sample: Any = None) -> None:
        k = leanio.canon(key)
        c = self.cases.setdefault(k, [0, False])
        c[0] += 1
        c[1] = c[1] or bool(nontrivial)
        if sample is not None and len(self.samples) < 1:
            self.samples.append(sample)


def kaflight_case(col: Any, sc: dict, tr: dict) -> list | None:
    """The tie of the in-flight layer (`C13_KaFlight.kstep`): a history with a slow request, abstracted into a label list.
    Every regular keep-alive PATCH (class read off payload + call context, logged when SENT: `peer_patches`) is `kaIssue i` at its
    send time and `kaLand i` when the server applies it (the `writes` log: matched by sender, send time and payload) - or no
    label at all when it never arrives (its client cancelled it, the sender was killed, the history ended). The stop request is
    `exitBegin i`, the landing of the withdrawal `exitEnd i`, a kill `kill i`, time `tick d`; every OTHER write to the peering
    object (self-touches of process_peering_event calls, applied cleans, the pre-set status) enters as `foreign j r` with its real
    content (their own semantics are tied by C13.write / C13.stale). After every label: the record of every identity ON THE REAL
    SERVER (the `after` of the last applied write) and the stamp of the keep-alive of every identity that is on the wire - sent,
    not applied, not cancelled by its client (cancellation time logged at the request itself; the tasks of a KILLED process are
    torn down by the harness: that is not a client taking its request back, the request stays on the wire as in the model).
    `exitEnd` is ONE step in the model, in the code it is cancel the pinger -> send the withdrawal -> it lands: in between, the
    in-flight flag of that one identity is not compared (both sides 'stopping'); its record is.
    Returns [request, impl] or None (skipped, counted)."""
    if not sc.get("slow_requests"):
        return None

    def skip(why: str) -> None:
        col.count("lts.kaflight", "skipped: " + why)
        return None
    incs = tr["incs"]
    idents = [i["identity"] for i in incs]
    if len(set(idents)) != len(idents):
        return skip("an identity is used by two incarnations")
    if sc.get("faults") or tr.get("fault_hits") or tr.get("guard_failures") or sc.get("patch_latency") or sc.get("response_latency") \
            or sc.get("selftouch_latency") or any(e[1] not in ("start", "stop", "kill", "edit") for e in sc["timeline"]):
        return skip("faults / other latencies / foreign actors in the history")
    t_end = tr["t_end"]
    by_who = {i["who"]: i for i in incs}
    pre = sc.get("pre_status") or {}
    if any(wf_rec(v) is None for v in pre.values()):
        return skip("pre-set status not well-formed")
    ids = sorted(set(idents) | set(pre))
    writes = tr.get("writes", [])
    chain = pre
    for w in writes:
        if w["before"] != chain and not (not w["before"] and not chain):
            return skip("a write to the peering object outside the PATCH log")
        chain = w["after"]
        if not isinstance(w["patch"], dict) or not isinstance(w["after"], dict) or w["who"] not in by_who \
                or any(v is not None and wf_rec(v) is None for v in w["patch"].values()) or any(wf_rec(v) is None for v in w["after"].values()):
            return skip("a write that is not well-formed")
    # events: (tick, rank, seq, kind, data)
    ev: list = []
    for n, (k, v) in enumerate(pre.items()):
        ev.append((0, -1, n, "pre", (k, v)))
    for i in incs:
        ev.append((sim_c13.ticks(i["t_start"]), 0, i["inc"], "start", i))
        if i["t_stop_req"] is not None and i["t_stop_req"] <= t_end:
            ev.append((sim_c13.ticks(i["t_stop_req"]), 2, i["inc"], "exitBegin", i))
        if i["t_killed"] is not None and i["t_killed"] <= t_end:
            ev.append((sim_c13.ticks(i["t_killed"]), 3, i["inc"], "kill", i))
    kas: list = []                         # the regular keep-alives that went on the wire
    land_of: dict[int, dict] = {}          # index of a write -> the keep-alive request it is
    for n, pp in enumerate(tr.get("peer_patches", [])):
        i = by_who.get(pp["who"])
        if i is None or pp["t"] > t_end or pp["cls"] != "keepalive":
            continue
        if pp["refused_dead"] or (i["t_killed"] is not None and i["t_killed"] < pp["t"]):
            continue                       # never on the wire: the dead / closed session refused it
        ws = [m for m, w in enumerate(writes) if w["who"] == pp["who"] and w["t_issue"] == pp["t"] and w["patch"] == pp["status"]
              and m not in land_of]
        if len(ws) > 1:
            return skip("a keep-alive request matches two writes")
        killed_at = i["t_killed"]
        ka = {"id": i["identity"], "t": sim_c13.ticks(pp["t"]), "landed": False, "issued": False,
              # taken back by its own client (a cancellation in a process that was not killed at that moment)
              "t_cancel": sim_c13.ticks(pp["t_cancel"]) if pp["t_cancel"] is not None and not (killed_at is not None and pp["t_cancel"] >= killed_at) else None,
              "lands": bool(ws), "killed": killed_at is not None}
        if ws:
            land_of[ws[0]] = ka
        kas.append(ka)
        ev.append((ka["t"], 2, 1000 + n, "kaIssue", ka))
    withdrawn: set = set()
    for m, w in enumerate(writes):
        ev.append((sim_c13.ticks(w["t"]), 1, m, "write", (m, w)))
    ev.sort(key=lambda e: e[:3])
    labels: list = []
    obs: list = []
    cmp_at: list = []
    status: dict = {}
    now = 0
    ended: set = set()

    def snap_obs() -> dict:
        fl: dict = {}
        susp = []
        for x in ids:
            cur = [k for k in kas if k["id"] == x and k["issued"] and not k["landed"]]
            onwire = [k for k in cur if k["t_cancel"] is None or k["t_cancel"] > now]
            if any(k["t_cancel"] is not None and k["t_cancel"] <= now for k in cur) and x not in ended:
                susp.append(x)
            fl[x] = onwire[-1]["t"] if onwire else None
        return {"now": now, "recs": {x: (wf_rec(status[x]) if x in status else None) for x in ids}, "flight": fl, "stopping": susp}

    def emit(label: list, compare: bool = True) -> None:
        labels.append(label)
        obs.append(snap_obs())
        cmp_at.append(compare)
        col.count("lts.kaflight_labels", label[0])
    for (t, _rank, _seq, kind, data) in ev:
        if t > now:
            d, now = t - now, t
            emit(["tick", d])
        if kind == "pre":
            status = dict(list(status.items()) + [data])
            emit(["foreign", data[0], wf_rec(data[1])], compare=len(status) == len(pre))
        elif kind == "start":
            emit(["start", data["identity"], data["priority"], data["lifetime"]])
        elif kind in ("exitBegin", "kill"):
            emit([kind, data["identity"]])
        elif kind == "kaIssue":
            data["issued"] = True
            emit(["kaIssue", data["id"]])
        else:
            m, w = data
            i = by_who[w["who"]]
            me = i["identity"]
            if m in land_of:
                land_of[m]["landed"] = True
                status = w["after"]
                emit(["kaLand", me])
            elif w["patch"] == {me: None} and i["t_stop_req"] is not None and me not in withdrawn:
                withdrawn.add(me)
                ended.add(me)
                status = w["after"]
                emit(["exitEnd", me])
            else:
                items = list(w["patch"].items())
                status = w["after"]
                for n, (k, v) in enumerate(items):
                    emit(["foreign", k, None if v is None else wf_rec(v)], compare=n == len(items) - 1)
                col.count("lts.kaflight_other_writes", "own record (self-touch of a call)" if me in w["patch"] and w["patch"][me] is not None
                          else "own record removed" if me in w["patch"] else "others' records removed (clean)")
    for k in kas:
        col.count("lts.kaflight_keepalives", "applied by the server" if k["landed"] else
                  "cancelled by its client (the stop), never applied" if k["t_cancel"] is not None else
                  "sender killed while in flight, never applied" if k["killed"] else "still in flight at the end")
    col.count("lts.kaflight", "histories abstracted")
    return [["C13.kaflight", TPS, ids, labels], {"obs": obs, "cmp": cmp_at}]


def judge(sc: dict, tr: dict, full: bool = False) -> dict:
    """Everything that is decided from one history's trace: the oracle, and the requests for the Lean ties (runs in the worker)."""
    col = Collector()
    calls: list = []
    ka: list = []
    lts: list = []
    stats = oracle_history(col, sc, tr, full)      # type: ignore[arg-type]
    for k, v in stats.items():
        col.count("history." + k, "total", v)
    col.count("history.ops", len(sc["ops"]))
    if sc.get("stop_on_wake"):
        col.count("history.stop_on_wake", "fired (stop at the tick a sleep to a deadline ended)"
                  if any(m["what"] == "stop_on_wake" for m in tr.get("marks", [])) else "armed, no undisturbed wake")
    col.count("history.handler_delay", sc.get("handler_delay") or 0)
    for f in sc.get("faults") or []:
        fired = [h for h in tr.get("fault_hits", []) if h["who"].split("#")[0].split("-r")[0] == f.get("who") and
                 (f.get("cls") is None or h["cls"] == f["cls"])]
        life = int(sc["ops"].get(f.get("who"), {}).get("lifetime", 60))
        col.count("history.api_faults", f"{f.get('cls', 'any PATCH')}: {f.get('kind', 'status')}"
                                        f"{' ' + str(f.get('status', 503)) if f.get('kind', 'status') == 'status' else ''} x{f.get('count', 'all')}, "
                                        f"lifetime {'<=20' if life <= 20 else '>20'}: {'fired' if fired else 'armed, not reached'}")
    col.count("history.api_faults", "histories with faults" if sc.get("faults") else "histories without faults")
    stops = [g for g in tr.get("guard_failures", []) if any(h["inc"] == g["inc"] for h in tr.get("fault_hits", []))]
    if stops:
        col.count("history.api_faults", "fail-stop after a fault: " + stops[0]["task"].split(" for ")[0])
    for f in sc.get("slow_requests") or []:
        hit = [h for h in tr.get("slow_hits", []) if h["who"] == f.get("who") and h["cls"] == f.get("cls")]
        th = f.get("then")
        how = "no stop" if not th else (f"{th[0]} " + ("in flight" if float(th[1]) < float(f["delay"]) else "just after it arrived"))
        col.count("history.slow_request", f"{f.get('cls')} #{f.get('nth', 1)}, {how}: {'fired' if hit else 'armed, not reached'}")
        col.count("history.slow_request_delay", f["delay"])
    col.count("history.slow_request", "histories with a slow request" if sc.get("slow_requests") else "histories without")
    if sc.get("churn"):
        col.count("history.churn", f"{len(sc['ops'])} operators, lifetime 2, delivery {max(sc['delivery'].values())}")
    col.count("history.events", ",".join(sorted({e[1] for e in sc["timeline"]})))
    col.count("history.config", f"scope={sc.get('scope', 'cluster')},daemon={sc.get('daemon_mode', 'obey') if sc.get('daemon', True) else 'none'},"
                                f"timer={'yes' if sc.get('timer') else 'no'},other-peering-objects={'yes' if sc.get('other_peerings') else 'no'}")
    col.count("history.foreign_object_events", "ignored", sum(1 for p in tr["pcalls"] if not p["name_ok"]))
    col.count("history.timer_calls", "total", sum(1 for c in tr["calls"] if c["kind"] == "timer"))
    col.count("history.local_time_records", "total", sum(1 for e in sc["timeline"] if e[1] == "ghost_rel" and any(isinstance(v, dict) and v.get("tz") for v in e[2].values())))
    for n, p in enumerate(tr["pcalls"]):
        if p["now2"] is None and p["error"] in (None, "cancelled") and p["name_ok"]:
            continue            # cancelled before it got anywhere (operator exit)
        if p.get("faulted"):
            # an injected API fault inside the call (its clean() or its self-touch): `deliver` cannot fail in the model; what the
            # real call does then - raise and stop the operator, or retry and go on later - is the oracle's to judge
            col.count("history.calls_hit_by_a_fault", p["error"] or "went on")
            continue
        if p["error"] not in (None, "cancelled"):
            impl: Any = ["err", sim_c13.ERR_ENUM.get(p["error"], "other:" + p["error"])]
        elif not p["name_ok"] and p["now2"] is None and not p["cleaned"] and not p["turned"] and not p["touched"]:
            impl = "ignored"
        else:
            turned = p["turned"]
            impl = {"cleaned": p["cleaned"] or [], "turned": turned[0] if len(turned) == 1 else (None if not turned else turned),
                    "paused": p["toggle_after"], "delays": p["delays"]}
            if p["unslept"] is None and p["finished"]:
                impl["sleep"] = p["slept"] if p["slept"] else None
                impl["touch"] = p["touched"]
        if p.get("odd_patches"):
            col.tie_fail("a process_peering_event call sent a PATCH the model has no counterpart for (before its sleep it only removes "
                         "records, after an undisturbed sleep it only writes its own)", {"scenario": sc, "call": p})
        interrupted = not (isinstance(impl, dict) and "sleep" in impl)
        calls.append([decide_request(sim_c13.abstract_status(p["status"]), p["me"], p["prio"], p["autoclean"], p["name_ok"],
                                     p["toggle_before"], p["t0"], p["now2"] if p["now2"] is not None else p["t0"]), impl, interrupted])
        col.case(key=_shape_of_call(p["status"], p["me"], p["prio"], p["toggle_before"], impl), nontrivial=bool(p["status"]),
                 sample={"scenario_seed": sc.get("seed"), "call": p} if n == 7 and sc.get("seed", 0) % 41 == 0 else None)
    # ---- LTS-level ties: the write semantics (`Status.patch`) and the stale-view step (`deliverStale`) -----------------
    who_of = {i["inc"]: i["who"] for i in tr["incs"]}
    bound = 1 + sim_c13.ticks(max([0.0] + [float(x) for x in (sc.get("patch_latency") or {}).values()])) \
        + sim_c13.ticks(max([0.0] + [float(x) for x in (sc.get("selftouch_latency") or {}).values()])) \
        + sim_c13.ticks(max([0.0] + [float(x.get("delay", 0)) for x in (sc.get("slow_requests") or [])]))
    wf_writes = []
    Hw = Hist(sc, tr)
    for w in tr.get("writes", []):
        b, a_, pt = wf_status(w["before"]), wf_status(w["after"]), w["patch"]
        pl: list | None = []
        if b is None or a_ is None or not isinstance(pt, dict):
            pl = None
        else:
            for k, v in pt.items():
                vv = None if v is None else wf_rec(v)
                if v is not None and vv is None:
                    pl = None
                    break
                pl.append([k, vv])
        wf_writes.append((w, b, a_, pl))
        if pl is None:
            col.count("lts.write", "skipped (not well-formed)")
            continue
        lts.append([["C13.write", b, pl], a_])
        col.count("lts.write", "touch" if any(v is not None for v in pt.values()) else "erase")
        for k, vv in pl:
            if vv is not None:
                lag = sim_c13.ticks(w["t"]) - vv["lastseen"]
                col.count("lts.touch_lag_ticks", lag)
                w_inc = next((i["inc"] for i in tr["incs"] if i["who"] == w["who"]), None)
                if lag > bound and any(a <= w["t"] <= b for (a, b, _own, _hs) in Hw.windows.get(w_inc, [])):
                    # a request that kopf's client RETRIES carries the record stamped at the first attempt
                    col.count("lts.touch_lag_ticks", "late: a retried request (injected fault)")
                elif not (0 <= lag <= bound):
                    col.tie_fail(f"a record landed {lag} ticks after it was stamped: the harness' API latency exceeds the bound B the "
                                 f"timely-run theorems assume", {"scenario": sc, "write": w})
    # every call that cleans, as ONE step of the transition system: (view, its version) against (the status, its version) at the
    # moment the conditional PATCH reached the server - applied (200) or refused (409)
    by_issue: dict[tuple, list] = {}
    for (w, b, a_, pl) in wf_writes:
        by_issue.setdefault((w["who"], sim_c13.ticks(w["t_issue"])), []).append((w, b, a_, False))
    for w in tr.get("refused", []):
        by_issue.setdefault((w["who"], sim_c13.ticks(w["t_issue"])), []).append((w, wf_status(w["before"]), wf_status(w["after"]), True))
    for p in tr["pcalls"]:
        if not p["cleaned"] or p["toggle_before"] is None or p["error"] not in (None, "cancelled") or p.get("faulted"):
            continue
        view = wf_status(p["status"])
        ws = [x for x in by_issue.get((who_of.get(p["inc"]), p["t0"]), [])
              if isinstance(x[0]["patch"], dict) and list(x[0]["patch"].keys()) == p["cleaned"] and all(v is None for v in x[0]["patch"].values())]
        if view is None or len(ws) != 1 or ws[0][1] is None or ws[0][2] is None or not str(p["rv"]).isdigit() \
                or not str(ws[0][0].get("rv_before")).isdigit():
            col.count("lts.stale", "skipped")
            continue
        w, cur, after, refused = ws[0]
        if w.get("rv_sent") != str(p["rv"]):
            col.tie_fail(f"clean() named resourceVersion {w.get('rv_sent')!r} in its patch, the event it judged was at {p['rv']!r}: the "
                         f"model's conditional clean (the version of the judged view) is not what the code does", {"scenario": sc, "call": p, "write": w})
        lts.append([["C13.stale", {"u": TPS, "current": cur, "ver": int(w["rv_before"]), "view": view, "vv": int(p["rv"]), "me": p["me"],
                                   "prio": p["prio"], "paused": p["toggle_before"], "now": p["t0"],
                                   "regime": "late" if stats.get("late_regime") else "timely"}],
                    {"status": after, "paused": p["toggle_after"], "refused": refused}])
        col.count("lts.stale", ("refused (409)" if refused else "applied") + (", view==current" if view == cur else ", view older than current"))
    # the only CONDITIONAL writes (a PATCH naming a resourceVersion) of the model are the cleans of `deliverStale`: keep-alives,
    # self-touches and the withdrawal are unconditional (`keepalive`, `wake`, `exitEnd`: they cannot be refused)
    for w in list(tr.get("writes", [])) + list(tr.get("refused", [])):
        pt = w.get("patch")
        if w.get("rv_sent") is not None and not (isinstance(pt, dict) and pt and all(v is None for v in pt.values())
                                                   and not any(i["who"] == w["who"] and i["identity"] in pt for i in tr["incs"])):
            col.tie_fail(f"a write of {w['who']} to the peering object that is not a clean of others' records names a resourceVersion "
                         f"({w.get('rv_sent')}): in the model only the cleans are conditional", {"scenario": sc, "write": w})
    kf = kaflight_case(col, sc, tr)
    if kf is not None:
        lts.append(kf)
    for kk in tr["ka"]:
        if kk["lifetime"] is None:
            continue
        ka.append([["C13.kasleep", TPS, kk["lifetime"], kk["jitter"]], sim_c13.ticks(kk["sleep"])])
        col.case(key={"ka-sim": [kk["lifetime"], kk["jitter"]]}, nontrivial=True)
    facts: dict = {}
    if full:
        # plain facts of the run for the comparison with the Lean witnesses (an operator runs until its stop has COMPLETED)
        H = Hist(sc, tr)

        def run_end(i: dict) -> float:
            return min(x for x in [i["t_killed"], i["t_stopped"], H.t_fail.get(i["inc"]), H.t_end] if x is not None)
        moments = sorted({t for ev in H.pz.values() for (t, _v) in ev} | set(H.ph_t))
        both: set = set()
        bare: set = set()
        for t in moments:
            # active at t: the toggle set is off after the events at t, or was turned off at t (if only between two calls)
            act = [i for i in tr["incs"] if i["inc"] in H.made and H.made[i["inc"]] <= t < run_end(i)
                   and (H.paused_at(i["inc"], t) is False or any(tt == t and v is False and tt > H.made[i["inc"]] for (tt, v) in H.pz.get(i["inc"], [])))]
            if len(act) >= 2:
                both.add(tuple(sorted(i["name"] for i in act)))
            st, _rv = H.status_at(t)
            for i in tr["incs"]:
                had = any(i["identity"] in (h["status"] or {}) for h in H.ph if i["t_start"] <= h["t"] <= t)
                if had and i["t_start"] <= t < run_end(i) and i["identity"] not in st:
                    bare.add(i["name"])
        gone_live = sorted(i["name"] for i in tr["incs"] if i["t_stopped"] is not None
                           and i["identity"] in H.status_at(i["t_stopped"])[0]
                           and H.live(H.status_at(i["t_stopped"])[0][i["identity"]], i["t_stopped"])
                           and not any(j is not i and j["identity"] == i["identity"] and H.running(j, i["t_stopped"]) for j in tr["incs"]))
        st_end, _rv = H.status_at(H.t_end - LAT)
        run_ids = {i["identity"] for i in tr["incs"] if i["t_start"] <= H.t_end < run_end(i)}
        dead_left = sorted(k for k, r in st_end.items() if k not in run_ids and not H.live(r, H.t_end - 5.0))
        facts = {"both_active": sorted(both), "running_without_record": sorted(bare), "gone_with_live_record": gone_live,
                 "dead_record_left": dead_left}
    return {"judged": True, "failures": col.failures, "counts": col.counts, "cases": col.cases, "samples": col.samples,
            "calls": calls, "ka": ka, "lts": lts, "sim_error": tr.get("sim_error"), "facts": facts}


def check_histories(ctx: Ctx, scenarios: list[dict], reqs: list, impls: list, wheres: list, flags: list,
                    ka_reqs: list, ka_impls: list, ka_where: list, lts: tuple | None = None, full: bool = False) -> None:
    lts_reqs, lts_impls, lts_where = lts if lts is not None else ([], [], [])
    results = _run_pool([{**sc, "_judge": "full" if full else "std"} for sc in scenarios], wall=90.0)
    for sc, res in zip(scenarios, results):
        j = res["trace"]
        ctx.traces += 1
        for kind, what, replay, sig in j["failures"]:
            if kind == "oracle":
                ctx.oracle_fail(what, replay, sig)
            else:
                ctx.tie_fail(what, replay)
        for g, tags in j["counts"].items():
            for t, n in tags.items():
                ctx.count(g, t, n)
        for key, (n, nontrivial) in j["cases"].items():
            ctx.evaluations += n
            if nontrivial:
                ctx.nontrivial.add(key)
        for smp in j["samples"]:
            if len(ctx.samples) < 6:
                ctx.samples.append(smp)
        for req, impl, interrupted in j["calls"]:
            reqs.append(req)
            impls.append(impl)
            flags.append(interrupted)
            wheres.append({"scenario": sc, "request": req})
        for req, impl in j["ka"]:
            ka_reqs.append(req)
            ka_impls.append(impl)
            ka_where.append({"scenario": sc, "request": req})
        for req, impl in j["lts"]:
            lts_reqs.append(req)
            lts_impls.append(impl)
            lts_where.append({"scenario": sc, "request": req})


def _corpus() -> list[tuple[str, dict]]:
    return [(n, d) for n, d in load_corpus(ID)]


def run(ctx: Ctx) -> None:
    reqs: list = []
    impls: list = []
    wheres: list = []
    flags: list = []
    ka_reqs: list = []
    ka_impls: list = []
    ka_where: list = []
    corpus = _corpus()
    direct_cases = [d["direct_case"] for _n, d in corpus if "direct_case" in d]
    histories = [d["scenario"] for _n, d in corpus if "scenario" in d and not d.get("expect")]
    witnesses = [(n, d) for n, d in corpus if d.get("expect")]
    n_direct = ctx.budget(3000, 40000)
    direct_cases += [gen_direct(ctx.rng) for _ in range(n_direct)]
    n_hist = ctx.budget(120, 2000)
    histories += [gen_history(ctx.rng, ctx.seed * 1_000_000 + i) for i in range(n_hist)]
    check_keepalive(ctx)
    check_direct(ctx, direct_cases, reqs, impls, wheres, flags)
    lts: tuple = ([], [], [])
    check_histories(ctx, histories, reqs, impls, wheres, flags, ka_reqs, ka_impls, ka_where, lts)
    for name, d in witnesses:
        run_witness(ctx, name, d)
    try:
        outs = ctx.driver.ask(reqs + ka_reqs + lts[0])
    except leanio.LeanError as e:
        ctx.tie_fail(f"Lean driver failed: {e}", {"log": e.log})
        return
    for impl, out, wh, fl in zip(impls, outs[:len(reqs)], wheres, flags):
        ctx.compare("C13 process_peering_event call", impl, model_view(out, fl), wh)
    for impl, out, wh in zip(ka_impls, outs[len(reqs):len(reqs) + len(ka_reqs)], ka_where):
        ctx.compare("C13 keep-alive period (simulation)", impl, out[1] if out and out[0] == "ok" else out, wh)
    for req, impl, out, wh in zip(lts[0], lts[1], outs[len(reqs) + len(ka_reqs):], lts[2]):
        m = out[1] if out and out[0] == "ok" else out
        if req[0] == "C13.kaflight":
            # after EVERY label: the records on the real server and the keep-alives on the wire against the model's state
            for n, (o, cmp_here) in enumerate(zip(impl["obs"], impl["cmp"])):
                mo = m[n] if isinstance(m, list) and n < len(m) else ["no-state", n]
                o = dict(o)
                stopping = o.pop("stopping")
                if isinstance(mo, dict) and stopping:
                    mo = dict(mo, flight={k: ("stopping" if k in stopping else v) for k, v in mo["flight"].items()})
                    o["flight"] = {k: ("stopping" if k in stopping else v) for k, v in o["flight"].items()}
                if not cmp_here and isinstance(mo, dict):
                    continue
                ctx.count("lts.kaflight_compared", "after " + req[3][n][0])
                if not ctx.compare(f"C13 in-flight layer (kstep), after label #{n} {req[3][n]}", o, mo, wh) or not isinstance(mo, dict):
                    break
            ctx.case(key={"lts": req[0], "labels": sorted({l[0] for l in req[3]})}, nontrivial=any(l[0] == "kaIssue" for l in req[3]))
            continue
        if req[0] == "C13.stale" and isinstance(m, dict):
            # how the real staleness is distributed: views of the current version (clean applied), older views whose clean is
            # refused - with the verdict of the current status, or with another one (the residue of F4)
            ctx.count("lts.stale_view", f"{req[1].get('regime', '?')} regime: " + (
                "current version (clean applied)" if not m.get("refused") else
                "older version, clean refused, same verdict" if m.get("sameVerdict") else
                "older version, clean refused, VERDICT DIFFERS (residue of F4)"))
            # (a call cancelled - operator torn down - after its clean() has landed but before the toggle: the write is compared)
            m = {"status": m["status"], "paused": m["paused"] if impl.get("paused") is not None else None, "refused": m["refused"]}
        ctx.compare("C13 transition system: " + ("write semantics" if req[0] == "C13.write" else "stale-view step"), impl, m, wh)
        ctx.case(key={"lts": req[0], "n": min(len(req[1]) if isinstance(req[1], list) else len(req[1]["current"]), 3)}, nontrivial=True)
    ctx.count("histories", "run", len(histories))


def run_witness(ctx: Ctx, name: str, d: dict) -> None:
    """A corpus history that is expected to FAIL the oracle in a given way (a proved counterexample replayed on the real
    code): the failure is reported with the finding's signature, so `known_findings.jsonl` decides how it is printed."""
    j = _run_pool([{**d["scenario"], "_judge": "full"}], wall=90.0)[0]["trace"]
    fails = [f for f in j["failures"] if f[0] == "oracle"]
    hits = [f for f in fails if (f[3] or {}).get("shape") == d["expect"]["shape"]]
    ctx.count("witness", f"{name}:{'reproduced' if hits else 'not-reproduced'}")
    if hits:
        ctx.oracle_fail(hits[0][1], {"scenario": d["scenario"], "witness": name}, d["expect"]["signature"])
    also = d["expect"].get("also", [])
    other = [f for f in fails if f not in hits and also != "*" and (f[3] or {}).get("shape") not in also]
    for f in other[:3]:
        ctx.oracle_fail(f[1], f[2], f[3])
    ln = d.get("lean")
    if ln and hits:         # (a witness that no longer reproduces is a repaired finding: reported as stale by the framework)
        # the Lean witness of the same finding (a theorem proved by `decide` on this very label list), run through the
        # driver: what it claims of its end state must be what the replay on the real code showed
        try:
            out = ctx.driver.ask([["C13.run", TPS, ln["ids"], ln["labels"]]])[0]
        except leanio.LeanError as e:
            ctx.tie_fail(f"Lean driver failed: {e}", {"log": e.log})
            return
        snaps = out[1] if out and out[0] == "ok" else None
        model: Any = out
        claims = ln["claims"]
        if snaps:
            last = snaps[-1]
            ops_ = last["ops"]
            live_ids = [e[0] for e in last["status"] if e[1]["lastseen"] + e[1]["lifetime"] * TPS > last["now"]]
            m_all = {"both_active": sum(1 for o in ops_.values() if o["alive"] and not o["paused"]) >= 2,
                     "running_without_record": any(o["alive"] and i not in [e[0] for e in last["status"]] for i, o in ops_.items()),
                     "gone_with_live_record": any(not o["alive"] and i in live_ids for i, o in ops_.items()),
                     "dead_record_left": any(e[0] not in live_ids and not (ops_.get(e[0]) or {}).get("alive") for e in last["status"])}
            model = {k: m_all[k] for k in claims}
        facts = j.get("facts") or {}
        impl = {k: bool(facts.get(k)) for k in claims}
        ctx.compare(f"C13 witness {name}: Lean run ({ln['theorem']}) vs replay on the real code", impl, model,
                    {"scenario": d["scenario"], "witness": name, "lean": ln, "facts": facts})
        ctx.case(key={"witness": name}, nontrivial=True)


def search(ctx: Ctx, broken: list) -> None:
    """A proof/tie is broken: look for a concrete failing input with the oracles at a larger budget."""
    cases = []
    for b in broken[:20]:
        rep = b.replay if isinstance(b.replay, dict) else {}
        inp = rep.get("input", rep)
        if isinstance(inp, dict) and "direct_case" in inp:
            cases.append(inp["direct_case"])
    cases += [gen_direct(ctx.rng) for _ in range(ctx.budget(20000, 100000))]
    check_direct(ctx, cases, [], [], [], [])
    if any(f.kind == "oracle" for f in ctx.failures):
        return
    check_keepalive(ctx)
    if any(f.kind == "oracle" for f in ctx.failures):
        return
    scs = []
    for b in broken[:10]:
        rep = b.replay if isinstance(b.replay, dict) else {}
        inp = rep.get("input", rep)
        if isinstance(inp, dict) and "scenario" in inp:
            scs.append(inp["scenario"])
    scs += [gen_history(ctx.rng, 7_000_000 + ctx.seed * 100_000 + i) for i in range(ctx.budget(400, 3000))]
    check_histories(ctx, scs, [], [], [], [], [], [], [])


def replay(ctx: Ctx, data: dict) -> None:
    rep = data.get("replay", data)
    if "input" in rep and isinstance(rep["input"], dict):
        rep = rep["input"]
    if "direct_case" in rep:
        check_direct(ctx, [rep["direct_case"]], [], [], [], [])
    elif "keepalive" in rep or "touch" in rep:
        check_keepalive(ctx)
    elif "scenario" in rep:
        check_histories(ctx, [rep["scenario"]], [], [], [], [], [], [], [])
