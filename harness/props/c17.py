"""C17 — in-memory indices mirror the cluster; handling waits for the initial index.

Tie (D): random histories of ADDED/MODIFIED/DELETED/listing events over 1-4 objects of 1-3 resource
kinds are pushed through the REAL `processing.process_resource_event` (hence `index_resource`,
`OperatorIndexers.replace/discard`, `Index._replace/_discard`, the in-memory retry state) with a real
registry built by the real `@kopf.index` decorator whose functions return scripted results; after
every event the public read-only views (`indexers.indices`) and the indexing memory are compared
with the Lean model (`C17.run`), and with an independent dictionary reference model written from
docs/indexing.rst (the oracle).

Tie (A): start-ups with 2-3 indexed kinds (+ an optional plain kind) run the REAL
`orchestration.spawn_missing_watchers`, `queueing.watcher`, `queueing.worker`,
`processing.process_resource_event`, `ToggleSet/Toggle` under the virtual-time loop, with
`watching.infinite_watch` replaced by a scripted stream (staggered listings, slow index functions,
re-listings, suspended `make_toggle` calls). Labels are logged at the code's atomic segments and
replayed through the Lean transition system (`C17.gate`); the oracle reads only the stream log, the
index-function call log and the `@kopf.on.event` handler log.
"""
from __future__ import annotations

import asyncio
import collections.abc
import json
import logging
import multiprocessing
import os
import random
import sys
from typing import Any

from .. import leanio
from ..core import Ctx, load_corpus

ID = "C17"
LEVEL = "proof"
ENGINES = ["lean-model", "purediff", "kopfsim"]
LEVEL_TEXT = (
    "Lean theorems for all event lists / all label interleavings. Index: no KeyError inside the index (run_total), "
    "forward/reverse consistency, no empty collections and key uniqueness of all three dicts as invariants, "
    "index = groupBy(documented reference) up to Python equality (mirror_upto_pyeq; exact under a lawful == as "
    "mirror_partial; the exact statement is refuted for Python's == by mirror_witness = finding F1), the keep/remove "
    "table incl. the retries=/timeout= budget. Gate: safety for every interleaving with any number of "
    "spawn_missing_watchers batches (gate_safe for the start-up batch, pass_safe/detach_safe for every kind spawned "
    "so far); beyond the property (liveness is not part of C17): gate_can_open_partial (the gate can open from every "
    "reachable state in which no indexing cycle ended without drop_toggle) with gate_stuck_witness for the raising "
    "path (an observation, not a finding: proposals/fix-C17F3); three broken variants refuted. Tied to the "
    "code by differential runs of the real process_resource_event/indexers (D) and by trace acceptance of real "
    "watcher/worker/ToggleSet start-ups incl. a second batch under virtual time (A). The retry/exclusion half of the "
    "Lean reference shares exhausted/lookahead/awake with the model (definitional there); it is checked independently "
    "only by the Python oracle.")
TIE = ("D: real process_resource_event + OperatorIndexers vs Lean model after every event (views in dict order, "
       "retry memory incl. started); A: real spawn_missing_watchers (1-2 batches)/watcher/worker/ToggleSet traces "
       "accepted by the Lean LTS")
THEOREMS = [
    ("Kopf.Props.C17", "Kopf.C17.run_total"),
    ("Kopf.Props.C17", "Kopf.C17.fwd_rev_consistent"),
    ("Kopf.Props.C17", "Kopf.C17.no_empty_collections"),
    ("Kopf.Props.C17", "Kopf.C17.keys_unique"),
    ("Kopf.Props.C17", "Kopf.C17.mirror_upto_pyeq"),
    ("Kopf.Props.C17", "Kopf.C17.mirror_partial"),
    ("Kopf.Props.C17", "Kopf.C17.mirror_witness"),
    ("Kopf.Props.C17", "Kopf.C17.mirror_exclusions"),
    ("Kopf.Props.C17", "Kopf.C17.deleted_discards"),
    ("Kopf.Props.C17", "Kopf.C17.mismatch_discards"),
    ("Kopf.Props.C17", "Kopf.C17.excluded_stays_out"),
    ("Kopf.Props.C17", "Kopf.C17.exhausted_discards"),
    ("Kopf.Props.C17", "Kopf.C17.none_keeps"),
    ("Kopf.Props.C17", "Kopf.C17.ignored_error_keeps"),
    ("Kopf.Props.C17", "Kopf.C17.error_discards"),
    ("Kopf.Props.C17", "Kopf.C17.dict_replaces"),
    ("Kopf.Props.C17", "Kopf.C17.scalar_under_none_key"),
    ("Kopf.Props.C17", "Kopf.C17.Gate.gate_safe"),
    ("Kopf.Props.C17", "Kopf.C17.Gate.pass_safe"),
    ("Kopf.Props.C17", "Kopf.C17.Gate.detach_safe"),
    ("Kopf.Props.C17", "Kopf.C17.Gate.ungated_only_after_ready"),
    ("Kopf.Props.C17", "Kopf.C17.Gate.gate_can_open_partial"),
    ("Kopf.Props.C17", "Kopf.C17.Gate.gate_stuck_witness"),
    ("Kopf.Props.C17", "Kopf.C17.Gate.noBlocker_witness"),
    ("Kopf.Props.C17", "Kopf.C17.Gate.noKindToggle_witness"),
    ("Kopf.Props.C17", "Kopf.C17.Gate.dropBeforeIndex_witness"),
]
RULE = ("index: 1-3 @kopf.index handlers (resource x label filter x errors mode x retries x backoff x timeout) over 1-3 "
        "kinds, 1-4 objects incl. delete-and-recreate, 1-14 events with times placed on/around retry and timeout "
        "deadlines; per event and handler a scripted result (dict with 0-2 keys from a colliding alphabet incl. None, "
        "scalar incl. falsy and bool/int twins, None, TemporaryError(delay), PermanentError, arbitrary exception); a case "
        "is distinct by its sequence of (event type, per-handler rule applied) and non-trivial when it hits a non-set "
        "rule, a key collision or a re-keying. gate: 2-3 indexed kinds (+ plain), optionally a kind discovered later "
        "(second spawn_missing_watchers call), 0-3 listed objects each, staggered dyadic delays with ties, slow index "
        "functions, re-listing, suspended make_toggle (per kind and per object), short idle timeouts; distinct by the "
        "label sequence.")
TRUSTED = [
    "abstraction of results to script kinds (isinstance Mapping / None / exception class) and of bodies to (kind, ns/name/uid, label)",
    "label instrumentation: ToggleSet subclass + module-attribute wrappers of queueing.watcher/worker, indexing.index_resource, "
    "the processor and a scripted watching.infinite_watch (no source hooks)",
    "index values are JSON data without floats; object uids are unique across kinds (as in Kubernetes)",
    "events are modelled one after another: OperatorIndexers.replace/discard are synchronous and touch only the event's own "
    "object key (Lemmas others_untouched), so concurrent workers of different objects commute on the indices",
]
ASSUMPTIONS = [
    "timeout= and delays are whole seconds of the loop clock, loop time does not run backwards",
    "handler ids are distinct; filters other than one label filter are C15's subject",
    "the exclusion/retry table of the Lean reference (awake, exhausted, lookahead) is shared with the model: mirror_* are "
    "decomposition theorems for the index bookkeeping and definitional for that table; a misreading of awakened/look-ahead "
    "would be caught by the D tie (real memory incl. retries/delayed/failure/started) and by the Python oracle only",
    "gate: a watcher that died and is respawned under the same kind (kopf 9ef1bcb) is not modelled; whether the gate "
    "ever opens is liveness and NOT checked by the oracle (C17 is safety): gate_can_open_partial is a possibility "
    "statement under the guard that no indexing cycle failed; the failing path (indexFail label, leaked toggle) is "
    "modelled, tied (corpus F3_gate_toggle_leak + 6% of generated start-ups) and shown stuck by gate_stuck_witness",
    "daemons/timers/change handlers are behind the same single wait_for(True) as @kopf.on.event handlers, which are what the gate runs observe",
]

KINDS = ["kexa", "kexb", "kexc"]
LATE_KIND = "kexd"      # a kind discovered after the start-up (second spawn_missing_watchers batch)
GROUP, VERSION = "kopf.dev", "v1"
F1_SIG = {"site": "Store._replace", "shape": "a new value that == the stored one (True/1/0/False) is not stored"}
F2_SIG = {"site": "OperatorIndexer.replace", "shape": "a non-dict Mapping result is unpacked by key (docs: strictly dict)"}


# =================================================================================================
# helpers shared by both parts
# =================================================================================================
def canon(x: Any) -> str:
    return json.dumps(x, sort_keys=True, ensure_ascii=False, separators=(",", ":"))


def to_json_value(v: Any) -> Any:
    """An indexed value as canonical JSON data (Memo/dict → object, tuple → list)."""
    if isinstance(v, collections.abc.Mapping):
        return {str(k): to_json_value(x) for k, x in v.items()}
    if isinstance(v, (list, tuple)):
        return [to_json_value(x) for x in v]
    if v is None or isinstance(v, (bool, int, str)):
        return v
    raise TypeError(f"unexpected indexed value {v!r}")


def _quiet_logging() -> None:
    logging.disable(logging.CRITICAL)


# =================================================================================================
# part D — index content
# =================================================================================================
VALUES = [0, 1, 2, True, False, "a", "b", "", None, [1], [True], {"x": 1}, {"x": True}, 7]
SCALARS = [0, 1, 2, True, False, "a", "", [1], [], 7, "zz"]
KEYS = ["k1", "k2", None]


def gen_script(rng: random.Random) -> list:
    r = rng.random()
    if r < 0.40:
        n = rng.choice([0, 1, 1, 1, 2, 2])
        keys = rng.sample(KEYS, n)
        return ["dict", [[k, rng.choice(VALUES)] for k in keys]]
    if r < 0.52:
        return ["scalar", rng.choice(SCALARS)]
    if r < 0.66:
        return ["none"]
    if r < 0.80:
        return ["temp", rng.choice([None, 0, 1, 1, 3, 60])]
    if r < 0.88:
        return ["perm"]
    return ["other"]


def gen_index_case(rng: random.Random) -> dict:
    nk = rng.choice([1, 1, 2, 2, 3])
    kinds = KINDS[:nk]
    indexed_kinds = kinds[:max(1, nk - (1 if nk == 3 or rng.random() < 0.2 else 0))] if nk > 1 else kinds
    nix = rng.choice([1, 2, 2, 3])
    indexers = []
    for i in range(nix):
        indexers.append({
            "id": f"i{i + 1}",
            "res": rng.choice(indexed_kinds),
            "want": rng.choice([None, None, "a", "a", "b"]),
            "errors": rng.choice([None, None, "ignored", "temporary", "temporary", "permanent"]),
            "retries": rng.choice([None, None, None, 0, 1, 2, 2, 3]),
            "backoff": rng.choice([None, None, 0, 1, 3]),
            "timeout": rng.choice([None, None, None, None, 0, 2, 4, 10]),
        })
    bk = rng.choice([60, 60, 2])
    nobj = rng.choice([1, 2, 2, 3, 4])
    objs = []
    for j in range(nobj):
        objs.append({"res": rng.choice(kinds), "name": f"o{j % 3}", "ns": rng.choice(["ns", "ns", None]),
                     "uid": f"u{j}", "gen": 0, "live": False})
    events = []
    t = 0
    # deadlines worth hitting exactly: now + delay of a pending temporary error
    deadlines: list[int] = []
    n = rng.choice([1, 2, 3, 4, 5, 6, 8, 10, 12, 14])
    for _ in range(n):
        o = rng.choice(objs)
        if deadlines and rng.random() < 0.35:
            d = rng.choice(deadlines)
            t = max(t, d + rng.choice([-1, 0, 0, 1]))
        else:
            t += rng.choice([0, 0, 1, 1, 2, 3, 5, 60])
        if o["live"]:
            typ = rng.choice(["MODIFIED", "MODIFIED", "MODIFIED", "DELETED", None, "ADDED"])
        else:
            typ = rng.choice(["ADDED", "ADDED", None, "MODIFIED", "DELETED"] if rng.random() < 0.15 else ["ADDED", None])
        script = {ix["id"]: gen_script(rng) for ix in indexers}
        for ix in indexers:
            s = script[ix["id"]]
            if s[0] == "temp" and s[1]:
                deadlines.append(t + s[1])
            if s[0] == "other" and ix["errors"] == "temporary":
                deadlines.append(t + (ix["backoff"] if ix["backoff"] is not None else bk))
            if ix["timeout"] and s[0] in ("temp", "other"):
                deadlines.append(t + ix["timeout"])
        events.append({"t": t, "res": o["res"], "name": o["name"], "ns": o["ns"], "uid": o["uid"],
                       "type": typ, "label": rng.choice([None, "a", "a", "a", "b"]), "script": script})
        if typ == "DELETED":
            o["live"] = False
            o["gen"] += 1
            o["uid"] = f"{o['uid'].split('-')[0]}-{o['gen']}"   # a recreated object gets a new uid
        else:
            o["live"] = True
    return {"kind": "index", "kinds": kinds, "indexers": indexers, "default_backoff": bk, "events": events}


def objkey(ev: dict) -> str:
    return f"{ev['ns']}/{ev['name']}/{ev['uid']}"


def realise(script: list) -> Any:
    """The Python object an index function returns / the exception it raises for a script entry."""
    import kopf
    from kopf._cogs.structs import ephemera
    kind = script[0]
    if kind == "dict":
        return {k: v for k, v in script[1]}
    if kind == "memo":
        return ephemera.Memo({k: v for k, v in script[1]})
    if kind == "scalar":
        return script[1]
    if kind == "none":
        return None
    if kind == "temp":
        return kopf.TemporaryError("scripted", delay=script[1])
    if kind == "perm":
        return kopf.PermanentError("scripted")
    if kind == "other":
        return ValueError("scripted")
    raise ValueError(kind)


def model_script(script: list) -> list:
    """Abstraction of a result to the model's script kinds (what the code distinguishes)."""
    if script[0] == "memo":        # isinstance(obj, collections.abc.Mapping)
        return ["dict", script[1]]
    return script


def model_request(case: dict) -> list:
    evs = [{"t": e["t"], "res": e["res"], "obj": objkey(e), "deleted": e["type"] == "DELETED",
            "label": e["label"], "script": {i: model_script(s) for i, s in e["script"].items()}}
           for e in case["events"]]
    return ["C17.run", case["indexers"], case["default_backoff"], evs]


async def run_index_case(case: dict) -> dict:
    """Run one history on the real code. Returns per-event snapshots, call logs and errors."""
    import kopf
    from kopf._cogs.configs import configuration
    from kopf._cogs.structs import ephemera, references
    from kopf._core.actions import lifecycles
    from kopf._core.engines import indexing
    from kopf._core.intents import registries
    from kopf._core.reactor import inventory, processing

    registry = registries.OperatorRegistry()
    cur: dict[str, Any] = {}
    calls: list[str] = []

    async def fn(param: str, **_: Any) -> Any:
        calls.append(param)
        r = realise(cur[param])
        if isinstance(r, Exception):
            raise r
        return r

    modes = {None: None, "ignored": kopf.ErrorsMode.IGNORED, "temporary": kopf.ErrorsMode.TEMPORARY,
             "permanent": kopf.ErrorsMode.PERMANENT}
    for ix in case["indexers"]:
        kopf.index(GROUP, VERSION, ix["res"], id=ix["id"], param=ix["id"], registry=registry,
                   labels={"grp": ix["want"]} if ix["want"] is not None else None,
                   errors=modes[ix["errors"]], retries=ix["retries"], backoff=ix["backoff"],
                   timeout=ix.get("timeout"))(fn)
    settings = configuration.OperatorSettings()
    settings.posting.enabled = False
    settings.execution.default_backoff = case["default_backoff"]
    indexers = indexing.OperatorIndexers()
    indexers.ensure(registry._indexing.get_all_handlers())
    memories = inventory.ResourceMemories()
    resources = {k: references.Resource(GROUP, VERSION, k, namespaced=True) for k in KINDS}
    loop = asyncio.get_running_loop()
    snaps, call_log, errors = [], [], []
    uid2key: dict[str, str] = {}
    for e in case["events"]:
        loop.vtime = float(e["t"])          # SimLoop: virtual loop time, whole seconds
        meta: dict[str, Any] = {"name": e["name"], "uid": e["uid"]}
        if e["ns"] is not None:
            meta["namespace"] = e["ns"]
        if e["label"] is not None:
            meta["labels"] = {"grp": e["label"]}
        body = {"apiVersion": f"{GROUP}/{VERSION}", "kind": e["res"].capitalize(), "metadata": meta, "spec": {"t": e["t"]}}
        uid2key[e["uid"]] = objkey(e)
        cur.clear()
        cur.update(e["script"])
        calls.clear()
        err = None
        try:
            await processing.process_resource_event(
                lifecycle=lifecycles.all_at_once, indexers=indexers, registry=registry, settings=settings,
                memories=memories, memobase=ephemera.Memo(), resource=resources[e["res"]],
                raw_event={"type": e["type"], "object": body}, event_queue=asyncio.Queue(), no_throttling=True)
        except Exception as exc:  # an exception escaping the indexing is itself an observation
            err = type(exc).__name__
        errors.append(err)
        call_log.append(sorted(calls))
        # the public read-only views, in their own iteration order
        view = {}
        for iid in indexers.indices:
            index = indexers.indices[iid]
            view[iid] = [[k, [to_json_value(v) for v in index[k]]] for k in index]
        mem: dict[str, dict[str, list]] = {}
        for uid, memory in memories._items.items():
            state = memory.indexing_memory.indexing_state
            if state is None:
                continue
            ent = {}
            for hid, hs in state._states.items():
                delayed = None if hs.delayed is None else int(round((hs.delayed - hs.basetime).total_seconds()))
                started = int(round((hs.started - hs.basetime).total_seconds()))
                ent[str(hid)] = [hs.retries, delayed, bool(hs.failure), started]
            if ent:
                mem[uid2key.get(uid, uid)] = ent
        snaps.append({"ix": view, "mem": mem})
    return {"snaps": snaps, "calls": call_log, "errors": errors}


# ---- the oracle: a dictionary reference model written from docs/indexing.rst --------------------
def oracle_index(case: dict, obs: dict) -> list[tuple[str, dict, dict]]:
    """Returns failures as (what, detail, signature). Reads only the documented rules and the
    implementation-level observations (views, call log, escaped errors)."""
    fails: list[tuple[str, dict, dict]] = []
    ixs = {ix["id"]: ix for ix in case["indexers"]}
    vals: dict[tuple[str, str], dict] = {}       # (index, object) -> {key: value}: the latest results
    excl: dict[tuple[str, str], Any] = {}        # (index, object) -> ("until", t) | "forever"
    fails_in_row: dict[tuple[str, str], int] = {}
    first_fail: dict[tuple[str, str], int] = {}  # (index, object) -> time of the first failure of the running series
    indexed_kinds = {ix["res"] for ix in case["indexers"]}
    for n, e in enumerate(case["events"]):
        o = objkey(e)
        expect_calls = []
        for iid, ix in ixs.items():
            p = (iid, o)
            if ix["res"] != e["res"]:
                continue                        # objects of other kinds never enter this index
            if e["type"] == "DELETED":
                vals.pop(p, None)               # "deleted …: all associated values are removed"
                excl.pop(p, None)
                fails_in_row.pop(p, None)
                first_fail.pop(p, None)
                continue
            if ix["want"] is not None and e["label"] != ix["want"]:
                vals.pop(p, None)               # "stops matching the filters: … removed"
                continue
            x = excl.get(p)
            if x == "forever" or (isinstance(x, tuple) and x[1] > e["t"]):
                vals.pop(p, None)               # "exclude the failed resource from (future) indexing"
                continue
            if ix["retries"] is not None and fails_in_row.get(p, 0) >= ix["retries"]:
                vals.pop(p, None)               # the retry limit is used up (incl. retries=0): permanent
                excl[p] = "forever"
                continue
            if ix.get("timeout") is not None and e["t"] - first_fail.get(p, e["t"]) >= ix["timeout"]:
                vals.pop(p, None)               # "timeout= … the overall duration from the first failure": permanent
                excl[p] = "forever"
                continue
            expect_calls.append(iid)
            s = e["script"][iid]
            kind = s[0]
            mode = ix["errors"] or "ignored"    # "errors=IGNORED (the default)"
            if kind == "dict":
                vals[p] = {canon(k): (k, v) for k, v in s[1]}
                excl.pop(p, None); fails_in_row.pop(p, None); first_fail.pop(p, None)
            elif kind == "memo":                # "strictly dict — not … even a subclass of dict, such as kopf.Memo"
                vals[p] = {canon(None): (None, {str(k): v for k, v in s[1]})}
                excl.pop(p, None); fails_in_row.pop(p, None); first_fail.pop(p, None)
            elif kind == "scalar":              # "the key is assumed to be None"
                vals[p] = {canon(None): (None, s[1])}
                excl.pop(p, None); fails_in_row.pop(p, None); first_fail.pop(p, None)
            elif kind == "none" or (kind == "other" and mode == "ignored"):
                excl.pop(p, None); fails_in_row.pop(p, None); first_fail.pop(p, None)   # "existing values … are preserved as-is"
            elif kind == "perm" or (kind == "other" and mode == "permanent"):
                vals.pop(p, None)
                excl[p] = "forever"
            else:                               # TemporaryError / arbitrary with errors=TEMPORARY
                vals.pop(p, None)
                delay = s[1] if kind == "temp" else (ix["backoff"] if ix["backoff"] is not None else case["default_backoff"])
                fails_in_row[p] = fails_in_row.get(p, 0) + 1
                first_fail.setdefault(p, e["t"])
                if ix["retries"] is not None and fails_in_row[p] >= ix["retries"]:
                    excl[p] = "forever"         # "retries= … until the resource is marked as permanently excluded"
                elif delay:
                    excl[p] = ("until", e["t"] + delay)
                else:
                    excl.pop(p, None)           # "set to 0 or None for no delay"
        # ---- compare with what the real code shows after this event
        where = {"event": n}
        if obs["errors"][n] is not None:
            fails.append((f"processing event #{n} raised {obs['errors'][n]} out of the indexing",
                          where, {"site": "index_resource", "shape": "exception escapes", "error": obs["errors"][n]}))
            continue
        if e["res"] in indexed_kinds and sorted(expect_calls) != obs["calls"][n]:
            fails.append((f"event #{n}: index functions called {obs['calls'][n]}, the documented rules call {sorted(expect_calls)}",
                          where, {"site": "index_resource", "shape": "wrong set of index functions invoked"}))
        view = obs["snaps"][n]["ix"]
        for iid in ixs:
            if iid not in view:
                fails.append((f"index {iid} does not exist", where, {"site": "OperatorIndexers", "shape": "index missing"}))
                continue
            want: dict[str, list] = {}
            for (i2, _o), d in vals.items():
                if i2 == iid:
                    for ck, (_k, v) in d.items():
                        want.setdefault(ck, []).append(v)
            got: dict[str, list] = {}
            for k, vs in view[iid]:
                if not vs:
                    fails.append((f"event #{n}: index {iid} keeps an empty collection under {k!r}",
                                  where, {"site": "Index._discard", "shape": "empty collection left"}))
                got.setdefault(canon(k), []).extend(vs)
            strict = lambda d: {k: sorted(canon(v) for v in vs) for k, vs in d.items()}
            if strict(want) != strict(got):
                sig = {"site": "index-content", "shape": "index differs from the documented reference"}
                if _equal_up_to_python_eq(want, got):
                    sig = F1_SIG
                elif any(s[0] == "memo" for s in e["script"].values()) or _memo_seen(case, n):
                    sig = F2_SIG
                fails.append((f"event #{n}: index {iid} is {got}, the documented rules give {want}",
                              {"event": n, "index": iid, "got": got, "want": want}, sig))
    return fails


def _memo_seen(case: dict, upto: int) -> bool:
    return any(s[0] == "memo" for e in case["events"][:upto + 1] for s in e["script"].values())


def _equal_up_to_python_eq(want: dict, got: dict) -> bool:
    """Same keys, and per key the value multisets can be matched with Python's `==`."""
    if set(want) != set(got):
        return False
    for k in want:
        a, b = list(want[k]), list(got[k])
        if len(a) != len(b):
            return False
        for x in a:
            for i, y in enumerate(b):
                if x == y:
                    del b[i]
                    break
            else:
                return False
    return True


def classify_index_case(case: dict, obs: dict) -> tuple[str, bool, dict]:
    """Abstracted case (for the distinct count) and its tags."""
    tags: dict[str, int] = {}
    seq = []
    collision = rekey = False
    prev_keys: dict[tuple[str, str], tuple] = {}
    for n, e in enumerate(case["events"]):
        called = set(obs["calls"][n])
        per = []
        for ix in case["indexers"]:
            iid = ix["id"]
            if e["type"] == "DELETED":
                k = "deleted"
            elif ix["res"] != e["res"]:
                k = "other-kind"
            elif ix["want"] is not None and e["label"] != ix["want"]:
                k = "mismatch"
            elif iid not in called:
                k = "excluded"
            else:
                s = e["script"][iid]
                k = s[0] if s[0] != "other" else f"other/{ix['errors'] or 'default'}"
                if s[0] == "dict":
                    keys = tuple(sorted(canon(x[0]) for x in s[1]))
                    p = (iid, objkey(e))
                    if p in prev_keys and prev_keys[p] != keys:
                        rekey = True
                    prev_keys[p] = keys
                    k = f"dict{len(s[1])}"
            per.append(k)
            tags[k] = tags.get(k, 0) + 1
        seq.append([e["type"] or "LISTED-OBJ", per])
        for iid, items in obs["snaps"][n]["ix"].items():
            if any(len(vs) > 1 for _k, vs in items):
                collision = True
    nontrivial = collision or rekey or any(k not in ("dict1", "dict2", "scalar") for k in tags)
    tags["_collision"] = int(collision)
    tags["_rekey"] = int(rekey)
    return canon(seq), nontrivial, tags


# =================================================================================================
# part A — the start-up gate
# =================================================================================================
DELAYS = [0, 0, 1 / 64, 1 / 64, 1 / 32, 1 / 16, 1 / 4, 1 / 4, 1.0]


def gen_gate_case(rng: random.Random) -> dict:
    n_ind = rng.choice([2, 2, 3])
    kinds = [{"name": KINDS[i], "indexed": True} for i in range(n_ind)]
    if n_ind < 3 and rng.random() < 0.5:
        kinds.append({"name": KINDS[n_ind], "indexed": False})
    rng.shuffle(kinds)
    streams: dict[str, list] = {}
    index_delay: dict[str, float] = {}
    uid = 0
    for k in kinds:
        items: list[dict] = []
        listed_objs = []
        for _ in range(rng.choice([0, 1, 1, 2, 3])):
            uid += 1
            u = f"{k['name']}-{uid}"
            listed_objs.append(u)
            items.append({"delay": rng.choice(DELAYS), "type": None, "uid": u})
            index_delay[u] = rng.choice(DELAYS)
        items.append({"delay": rng.choice(DELAYS), "listed": True})
        for _ in range(rng.choice([0, 0, 1, 2, 3])):
            if listed_objs and rng.random() < 0.5:
                items.append({"delay": rng.choice(DELAYS), "type": rng.choice(["MODIFIED", "MODIFIED", "DELETED"]),
                              "uid": rng.choice(listed_objs)})
            else:
                uid += 1
                u = f"{k['name']}-{uid}"
                listed_objs.append(u)
                index_delay[u] = rng.choice(DELAYS)
                items.append({"delay": rng.choice(DELAYS), "type": "ADDED", "uid": u})
        if rng.random() < 0.2:          # the watch is restarted (410 Gone): listing again, LISTED again
            for u in listed_objs[:2]:
                items.append({"delay": rng.choice(DELAYS), "type": None, "uid": u})
            items.append({"delay": rng.choice(DELAYS), "listed": True})
        streams[k["name"]] = items
    late = None
    if rng.random() < 0.3:
        items = []
        for _ in range(rng.choice([0, 1, 2])):
            uid += 1
            u = f"{LATE_KIND}-{uid}"
            items.append({"delay": rng.choice(DELAYS), "type": None, "uid": u})
            index_delay[u] = rng.choice(DELAYS)
        items.append({"delay": rng.choice(DELAYS), "listed": True})
        streams[LATE_KIND] = items
        late = {"delay": rng.choice([1 / 64, 1 / 4, 1.0, 3.0]),
                "kinds": [{"name": LATE_KIND, "indexed": rng.random() < 0.8}]}
    filter_raises = []
    if rng.random() < 0.06 and index_delay:
        filter_raises = [rng.choice(sorted(index_delay))]      # the when= filter raises for this object
    return {"kind": "gate", "kinds": kinds, "late": late, "streams": streams, "index_delay": index_delay,
            "filter_raises": filter_raises,
            "toggle_delay": [rng.choice([0, 0, 0, 1 / 64, 1 / 16, 1 / 4]) for _ in range(len(kinds) + 1)],
            "obj_toggle_delay": rng.choice([0, 0, 0, 1 / 64, 1 / 16, 1 / 4]),
            "idle_timeout": rng.choice([5.0, 5.0, 0.25, 1 / 16]),
            "handler_delay": rng.choice([0, 0, 1 / 64, 1 / 4])}


async def run_gate_case(case: dict) -> dict:
    import kopf
    from kopf._cogs.aiokits import aiotoggles
    from kopf._cogs.clients import watching
    from kopf._cogs.configs import configuration
    from kopf._cogs.structs import ephemera, references
    from kopf._core.actions import lifecycles
    from kopf._core.engines import indexing
    from kopf._core.intents import registries
    from kopf._core.reactor import inventory, orchestration, processing, queueing

    labels: list[list] = []          # the label trace for the Lean LTS, each with a snapshot
    obslog: list[tuple] = []         # implementation-level observations for the oracle
    late = case.get("late") or None
    all_kinds = case["kinds"] + (late["kinds"] if late else [])
    kinds = [k["name"] for k in all_kinds]
    first_kinds = [k["name"] for k in case["kinds"]]
    is_indexed = {k["name"]: k["indexed"] for k in all_kinds}
    batch: list[str] = []            # the kinds the running spawn_missing_watchers call is to spawn
    spawned_kinds: set[str] = set()
    resources = {k: references.Resource(GROUP, VERSION, k, namespaced=False) for k in kinds}
    by_resource = {r: k for k, r in resources.items()}
    cur_obj: "dict[asyncio.Task, tuple[str, str]]" = {}
    ungated: "set[asyncio.Task]" = set()
    crashed: list[str] = []
    watcher_of: "dict[asyncio.Task, str]" = {}
    idle: set[tuple[str, str]] = set()
    pending_listed: dict[str, bool] = {}
    toggle_delays = list(case["toggle_delay"])

    class LoggedToggleSet(aiotoggles.ToggleSet):
        def snap(self) -> dict:
            return {"n": len(self), "on": aiotoggles.ToggleSet.is_on(self)}

        def is_on(self) -> bool:
            res = super().is_on()
            frame = sys._getframe(1)
            if frame.f_code.co_name == "watcher":                 # the check before a per-object toggle
                k = watcher_of.get(asyncio.current_task())
                key = frame.f_locals.get("key")
                labels.append(["check", k, str(key[1]) if key else None, res, self.snap()])
            return res

        async def make_toggle(self, *a: Any, name: str | None = None, **kw: Any) -> aiotoggles.Toggle:
            if (name or "").startswith("kex"):
                d = toggle_delays.pop(0) if toggle_delays else 0
                if d:
                    await asyncio.sleep(d)      # an await point that suspends (as lock contention would)
            elif name != "orchestration blocker" and case.get("obj_toggle_delay"):
                await asyncio.sleep(case["obj_toggle_delay"])   # the gap between is_on() and adding the toggle
            t = await super().make_toggle(*a, name=name, **kw)
            if name == "orchestration blocker":
                labels.append(["spawnBegin", [[k, is_indexed[k]] for k in batch if k not in spawned_kinds], self.snap()])
            return t

        async def drop_toggle(self, toggle: aiotoggles.Toggle) -> None:
            await super().drop_toggle(toggle)
            name = toggle.name or ""
            if name == "orchestration blocker":
                labels.append(["spawnEnd", self.snap()])
            elif name.startswith("kex"):                           # f"{resource}@{namespace}"
                k = name.split("@")[0].split(".")[0]
                pending_listed[k] = False
                labels.append(["listed", k, self.snap()])
            else:                                                   # a per-object toggle, by its worker
                ro = cur_obj.get(asyncio.current_task())
                if ro is not None:
                    labels.append(["drop", ro[0], ro[1], self.snap()])

        async def wait_for(self, state: bool) -> None:
            ro = cur_obj.get(asyncio.current_task())
            if ro is not None and not _dropped_label(labels, ro):
                # the worker had no own toggle (plain kind): the drop step was a no-op
                labels.append(["drop", ro[0], ro[1], self.snap()])
            await super().wait_for(state)
            if ro is not None:
                labels.append(["pass", ro[0], ro[1], self.snap()])

    gate = LoggedToggleSet(all)

    def _dropped_label(ls: list, ro: tuple[str, str]) -> bool:
        # has this worker's current cycle already logged its `drop`?
        for l in reversed(ls):
            if l[0] in ("index",) and l[1] == ro[0] and l[2] == ro[1]:
                return False
            if l[0] == "drop" and l[1] == ro[0] and l[2] == ro[1]:
                return True
        return False

    # ---- real handlers via the real decorators
    registry = registries.OperatorRegistry()

    async def index_fn(param: str, uid: str, name: str, **_: Any) -> Any:
        obslog.append(("index-start", param, uid))
        d = case["index_delay"].get(uid, 0)
        if d:
            await asyncio.sleep(d)
        obslog.append(("index-end", param, uid))
        return {name: uid}

    async def event_fn(param: str, uid: str, **_: Any) -> None:
        ro = (param, uid)
        obslog.append(("handler-start", param, uid))
        labels.append(["handle", ro[0], ro[1], gate.snap()])
        if case.get("handler_delay"):
            await asyncio.sleep(case["handler_delay"])

    def when_fn(uid: str, **_: Any) -> bool:
        if uid in case.get("filter_raises", ()):
            raise RuntimeError("scripted failure in a when= filter")
        return True

    for k in kinds:
        if is_indexed[k]:
            kopf.index(GROUP, VERSION, k, id=f"idx_{k}", param=k, registry=registry,
                       when=when_fn if case.get("filter_raises") else None)(index_fn)
        kopf.on.event(GROUP, VERSION, k, id=f"ev_{k}", param=k, registry=registry)(event_fn)

    settings = configuration.OperatorSettings()
    settings.posting.enabled = False
    settings.queueing.idle_timeout = case["idle_timeout"]
    indexers = indexing.OperatorIndexers()
    indexers.ensure(registry._indexing.get_all_handlers())
    memories = inventory.ResourceMemories()

    # ---- module-attribute wrappers (restored in `finally`)
    real_index_resource = indexing.index_resource
    real_worker = queueing.worker
    real_watcher = queueing.watcher
    real_infinite_watch = watching.infinite_watch

    async def index_resource_logged(**kw: Any) -> None:
        await real_index_resource(**kw)
        ro = cur_obj.get(asyncio.current_task())
        if ro is not None:
            labels.append(["index", ro[0], ro[1], gate.snap()])
            if asyncio.current_task() in ungated:       # `operator_indexed is None`: no drop, no wait
                labels.append(["skip", ro[0], ro[1], gate.snap()])

    def worker_logged(**kw: Any) -> Any:
        resource, uid = kw["key"]
        k = by_resource[resource]
        gated = kw.get("operator_indexed") is not None
        has_toggle = kw.get("resource_indexed") is not None
        idle.discard((k, str(uid)))
        labels.append(["arrive", k, str(uid), gated, has_toggle, gate.snap()])
        return real_worker(**kw)

    def watcher_logged(**kw: Any) -> Any:
        k = by_resource[kw["resource"]]
        spawned_kinds.add(k)
        labels.append(["spawn", k, gate.snap()])

        async def run() -> None:
            watcher_of[asyncio.current_task()] = k
            await real_watcher(**kw)
        return run()

    async def scripted_watch(*, settings: Any, resource: Any, namespace: Any, operator_paused: Any = None, **_: Any):
        k = by_resource[resource]
        for item in case["streams"][k]:
            if item["delay"]:
                await asyncio.sleep(item["delay"])
            if item.get("listed"):
                obslog.append(("listed-yield", k))
                pending_listed[k] = True
                yield watching.Bookmark.LISTED
                if pending_listed.get(k):       # no toggle was dropped for it (plain kind / detached watcher)
                    labels.append(["listed", k, gate.snap()])
                    pending_listed[k] = False
            else:
                u = item["uid"]
                obslog.append(("yield", k, u, item["type"]))
                yield {"type": item["type"], "object": {
                    "apiVersion": f"{GROUP}/{VERSION}", "kind": k.capitalize(),
                    "metadata": {"name": u, "uid": u, "resourceVersion": str(len(obslog))}}}
        await asyncio.Event().wait()            # the watch stays open, silent

    real_processor = processing.process_resource_event

    async def processor(*, resource: Any, raw_event: Any, **kw: Any) -> Any:
        k = by_resource[resource]
        u = str(raw_event["object"]["metadata"]["uid"])
        task = asyncio.current_task()
        cur_obj[task] = (k, u)
        if kw.get("operator_indexed") is None:
            ungated.add(task)
        if (k, u) in idle:
            idle.discard((k, u))
            labels.append(["again", k, u, gate.snap()])
        started = len(labels)
        try:
            return await real_processor(
                lifecycle=lifecycles.all_at_once, registry=registry, settings=settings, indexers=indexers,
                memories=memories, memobase=ephemera.Memo(), event_queue=asyncio.Queue(),
                resource=resource, raw_event=raw_event, **kw)
        finally:
            # ungated workers skip the wait; cycles without a matching handler still reach the handlers' stage
            mine = [l for l in labels[started:] if len(l) > 2 and l[1] == k and l[2] == u]
            names = [l[0] for l in mine]
            if "index" not in names and sys.exc_info()[0] is not asyncio.CancelledError:
                # the cycle ended without reaching drop_toggle: index_resource (or something before
                # it) raised and the throttler swallowed it, or the throttler skipped the cycle
                labels.append(["indexFail", k, u, gate.snap()])
                idle.add((k, u))
            if ("pass" in names or "skip" in names) and "handle" not in names:
                labels.append(["handle", k, u, gate.snap()])   # process_resource_causes ran (no handler matched/left)
                names.append("handle")
            if "handle" in names:
                labels.append(["finish", k, u, gate.snap()])
                idle.add((k, u))
            cur_obj.pop(task, None)
            ungated.discard(task)

    indexing.index_resource = index_resource_logged       # processing calls `indexing.index_resource`
    queueing.worker = worker_logged
    queueing.watcher = watcher_logged
    watching.infinite_watch = scripted_watch
    tasks: list = []
    try:
        paused = aiotoggles.ToggleSet(any)
        ensemble = orchestration.Ensemble(
            operator_indexed=gate, operator_paused=paused,
            peering_missing=await paused.make_toggle(name="peering CRD is missing"))
        batch[:] = first_kinds
        await orchestration.spawn_missing_watchers(
            processor=processor, settings=settings,
            indexed_resources={resources[k] for k in first_kinds if is_indexed[k]},
            watched_resources=[resources[k] for k in first_kinds], watched_namespaces=[None], ensemble=ensemble)
        if late:                                    # a kind is discovered later: the orchestrator adjusts again
            await asyncio.sleep(late["delay"])
            batch[:] = kinds
            await orchestration.spawn_missing_watchers(
                processor=processor, settings=settings,
                indexed_resources={resources[k] for k in kinds if is_indexed[k]},
                watched_resources=[resources[k] for k in kinds], watched_namespaces=[None], ensemble=ensemble)
        tasks = list(ensemble.watcher_tasks.values())
        horizon = 2.0 + sum(i["delay"] for its in case["streams"].values() for i in its) \
            + sum(case["index_delay"].values()) + sum(case["toggle_delay"]) \
            + 12 * (case.get("handler_delay") or 0) + 2 * case["idle_timeout"] + 12 * (case.get("obj_toggle_delay") or 0) \
            + (late["delay"] if late else 0)
        await asyncio.sleep(horizon)
        crashed = [repr(t.exception()) for t in tasks if t.done() and not t.cancelled() and t.exception() is not None]
    finally:
        for t in tasks:
            t.cancel()
        if tasks:
            await asyncio.gather(*tasks, return_exceptions=True)
        indexing.index_resource = real_index_resource
        queueing.worker = real_worker
        queueing.watcher = real_watcher
        watching.infinite_watch = real_infinite_watch
    return {"labels": labels, "obs": [list(o) for o in obslog], "crashed": crashed, "final": gate.snap()}


def oracle_gate(case: dict, obs: dict) -> list[tuple[str, dict, dict]]:
    """No handler starts before every indexed kind delivered LISTED and every object of those initial
    listings went through its index function. Reads the stream log, the index-function log and the
    handler log only."""
    fails = []
    indexed = {k["name"] for k in case["kinds"] if k["indexed"]}      # the start-up batch
    late_indexed = {k["name"] for k in ((case.get("late") or {}).get("kinds") or []) if k["indexed"]}
    listed: set[str] = set()
    initial: set[tuple[str, str]] = set()
    indexed_once: set[tuple[str, str]] = set()
    started = 0
    delivered = 0
    for n, o in enumerate(obs["obs"]):
        if o[0] == "yield":
            delivered += 1
            if o[1] in (indexed | late_indexed) and o[1] not in listed and o[3] is None:
                initial.add((o[1], o[2]))
            if o[3] == "DELETED":
                indexed_once.add((o[1], o[2]))      # the object is gone: nothing of it is left to be indexed
        elif o[0] == "listed-yield":
            listed.add(o[1])
        elif o[0] == "index-end":
            indexed_once.add((o[1], o[2]))
        elif o[0] == "handler-start":
            started += 1
            # a kind discovered later holds back (only) its own objects until it is listed and indexed
            own = {o[1]} & late_indexed
            missing_kinds = sorted((indexed | own) - listed)
            missing_objs = sorted(x for x in initial - indexed_once if x[0] in indexed | own)
            # objects of kinds whose listing is still running are covered by `missing_kinds`
            if missing_kinds or missing_objs:
                fails.append((f"handler for {o[1]}/{o[2]} started (observation #{n}) while kinds {missing_kinds} were not listed "
                              f"and listed objects {missing_objs} were not indexed yet",
                              {"observation": n, "not_listed": missing_kinds, "not_indexed": missing_objs},
                              {"site": "operator_indexed gate", "shape": "handler before the initial index is complete"}))
                break
    if obs["crashed"]:
        fails.append((f"watcher task crashed: {obs['crashed'][:2]}", {}, {"site": "queueing.watcher", "shape": "crash"}))
    # NB: whether the gate ever opens is liveness, not part of C17 (pure safety): it is only counted
    # (`gate.opened`), never reported. corpus/C17/F3_gate_toggle_leak.json is a tie scenario for it.
    return fails


# =================================================================================================
# shards (also used through multiprocessing): generate, run the real code, oracle, Lean comparison
# =================================================================================================
import hashlib


def _sim(coro_fn: Any, wall: float = 120.0) -> Any:
    from harness.sim import simloop
    return simloop.run_sim(coro_fn, wall_limit=wall)


def _prepare(repo: str) -> None:
    _quiet_logging()
    if repo not in sys.path:
        sys.path.insert(0, repo)


def run_index_cases(cases: list[dict]) -> list[dict]:
    out: list[dict] = []

    async def main() -> None:
        for case in cases:
            obs = await run_index_case(case)
            out.append({"case": case, "obs": obs, "fails": oracle_index(case, obs),
                        "cls": classify_index_case(case, obs)})
    _sim(main, wall=900.0)
    return out


def run_gate_cases(cases: list[dict]) -> list[dict]:
    out = []
    for case in cases:
        async def main(case: dict = case) -> dict:
            return await run_gate_case(case)
        obs = _sim(main, wall=120.0)
        out.append({"case": case, "obs": obs, "fails": oracle_gate(case, obs)})
    return out


def _ask(reqs: list) -> list:
    """Driver call (also from pool workers); one retry after (re)building the driver modules."""
    drv = leanio.Driver([ID])            # the property's own driver: Kopf.Drv.C17 + Kopf.Drv.Main only
    try:
        return drv.ask(reqs)
    except leanio.LeanError:
        leanio.lake_build(drv.build_targets())
        return drv.ask(reqs)


def _new_summary() -> dict:
    return {"cases": [], "hist": {}, "oracle": [], "tie": [], "tie_comparisons": 0, "samples": [], "traces": 0,
            "lean_error": None}


def _count(sm: dict, group: str, tag: Any, n: int = 1) -> None:
    g = sm["hist"].setdefault(group, {})
    g[str(tag)] = g.get(str(tag), 0) + n


def _h(key: str) -> str:
    return hashlib.md5(key.encode()).hexdigest()


def summarise_index(results: list[dict], source: str, sm: dict | None = None, with_lean: bool = True) -> dict:
    sm = sm if sm is not None else _new_summary()
    reqs = []
    for r in results:
        case, obs = r["case"], r["obs"]
        key, nontrivial, tags = r["cls"]
        sm["cases"].append(("i" + _h(key), nontrivial))
        if nontrivial and len(sm["samples"]) < 3:
            sm["samples"].append({"indexers": case["indexers"], "events": len(case["events"]),
                                  "last_view": obs["snaps"][-1]["ix"] if obs["snaps"] else None})
        for t, c in tags.items():
            _count(sm, "index.rule", t, c)
        _count(sm, "index.events", len(case["events"]))
        _count(sm, "index.objects", len({objkey(e) for e in case["events"]}))
        _count(sm, "index.source", source)
        for what, detail, sig in r["fails"]:
            known = sig in (F1_SIG, F2_SIG)
            if sum(1 for f in sm["oracle"] if (f[2] in (F1_SIG, F2_SIG)) == known) < 12:
                sm["oracle"].append((what, {"case": case, "detail": detail, "impl": obs["snaps"]}, sig))
        reqs.append(model_request(case))
    if with_lean and reqs:
        try:
            outs = _ask(reqs)
        except leanio.LeanError as e:
            sm["lean_error"] = (str(e), e.log[-2000:])
            return sm
        for r, out in zip(results, outs):
            model = out[1] if out and out[0] == "ok" else out
            impl: Any = r["obs"]["snaps"]
            if any(x is not None for x in r["obs"]["errors"]):
                impl = ["err", "key-error" if "KeyError" in r["obs"]["errors"] else "error"]
            sm["tie_comparisons"] += 1
            if canon(impl) != canon(model) and len(sm["tie"]) < 10:
                first = next((i for i, (a, b) in enumerate(zip(impl, model)) if canon(a) != canon(b)), None) \
                    if isinstance(impl, list) and isinstance(model, list) else None
                sm["tie"].append(("index views / retry memory: implementation and model differ",
                                  {"case": r["case"], "first_diverging_event": first,
                                   "impl": impl[first] if first is not None else impl,
                                   "model": model[first] if first is not None else model}))
    return sm


def summarise_gate(results: list[dict], source: str, sm: dict | None = None, with_lean: bool = True) -> dict:
    sm = sm if sm is not None else _new_summary()
    reqs = []
    for r in results:
        case, obs = r["case"], r["obs"]
        names = [l[0] for l in obs["labels"]]
        key = canon([l[:-1] for l in obs["labels"]])
        handled = names.count("handle")
        under_blocker = "spawnEnd" in names and any(n == "arrive" for n in names[:names.index("spawnEnd")])
        reclosed = _reclosed(obs["labels"])
        sm["cases"].append(("g" + _h(key), handled > 0 and "pass" in names))
        if (under_blocker or reclosed) and len(sm["samples"]) < 3:
            sm["samples"].append({"kinds": case["kinds"], "labels": [l[:-1] for l in obs["labels"][:30]]})
        for nme in names:
            _count(sm, "gate.label", nme)
        _count(sm, "gate.kinds", len(case["kinds"]))
        _count(sm, "gate.opened", handled > 0)
        _count(sm, "gate.arrival_while_blocker_held", under_blocker)
        _count(sm, "gate.closed_again_after_opening", reclosed)
        _count(sm, "gate.late_batch", bool(case.get("late")))
        _count(sm, "gate.failed_indexing_cycle", "indexFail" in names)
        _count(sm, "gate.source", source)
        sm["traces"] += 1
        for what, detail, sig in r["fails"]:
            if len(sm["oracle"]) < 12:
                sm["oracle"].append((what, {"case": case, "detail": detail, "labels": obs["labels"]}, sig))
        reqs.append(["C17.gate", obs["labels"]])
    if with_lean and reqs:
        try:
            outs = _ask(reqs)
        except leanio.LeanError as e:
            sm["lean_error"] = (str(e), e.log[-2000:])
            return sm
        for r, out in zip(results, outs):
            res = out[1] if out and out[0] == "ok" else out
            ok = isinstance(res, dict) and res.get("accepted") is True and all(res.get("readyAtHandle", []))
            sm["tie_comparisons"] += 1
            if not ok and len(sm["tie"]) < 10:
                at = res.get("at") if isinstance(res, dict) else None
                sm["tie"].append(("start-up trace is not accepted by the gate model",
                                  {"case": r["case"], "result": res,
                                   "around": r["obs"]["labels"][max(0, (at or 0) - 8):(at or 0) + 2] if at is not None else None}))
    return sm


def _reclosed(labels: list) -> bool:
    """the set was observed on and later off again (a late object added its toggle)"""
    seen_on = False
    for l in labels:
        snap = l[-1]
        if isinstance(snap, dict):
            if snap["on"] and l[0] not in ("spawnBegin",):
                seen_on = True
            elif seen_on and not snap["on"]:
                return True
    return False


def index_shard(args: tuple) -> dict:
    seed, n, repo, with_lean = args
    _prepare(repo)
    rng = random.Random(f"C17-index-{seed}")
    sm = _new_summary()
    step = 2500
    for i in range(0, n, step):           # bounded memory per batch
        cases = [gen_index_case(rng) for _ in range(min(step, n - i))]
        summarise_index(run_index_cases(cases), "generated", sm, with_lean)
    return sm


def gate_shard(args: tuple) -> dict:
    seed, n, repo, with_lean = args
    _prepare(repo)
    rng = random.Random(f"C17-gate-{seed}")
    sm = _new_summary()
    step = 200
    for i in range(0, n, step):
        cases = [gen_gate_case(rng) for _ in range(min(step, n - i))]
        summarise_gate(run_gate_cases(cases), "generated", sm, with_lean)
    return sm


def _map(fn: Any, jobs: list[tuple], parallel: bool) -> list[dict]:
    jobs = [j for j in jobs if j[1] > 0]
    if not parallel or len(jobs) <= 1:
        return [fn(j) for j in jobs]
    mp = multiprocessing.get_context("fork")
    with mp.Pool(min(16, len(jobs), os.cpu_count() or 4)) as pool:
        return pool.map(fn, jobs)


# =================================================================================================
# the check
# =================================================================================================
def _merge(ctx: Ctx, sm: dict) -> None:
    for key, nontrivial in sm["cases"]:
        ctx.case(key=key, nontrivial=nontrivial)
    for s in sm["samples"]:
        if len(ctx.samples) < 6:
            ctx.samples.append(s)
    for g, d in sm["hist"].items():
        for t, c in d.items():
            ctx.count(g, t, c)
    ctx.traces += sm["traces"]
    ctx.tie_comparisons += sm["tie_comparisons"]
    for what, replay_, sig in sm["oracle"]:
        ctx.oracle_fail(what, replay_, sig)
    for what, replay_ in sm["tie"]:
        if sum(1 for f in ctx.failures if f.kind == "tie") < 50:
            ctx.tie_fail(what, replay_)
    if sm["lean_error"]:
        ctx.tie_fail(f"Lean driver failed: {sm['lean_error'][0]}", {"log": sm["lean_error"][1]})


def run(ctx: Ctx) -> None:
    _prepare(str(ctx.repo))
    thorough = ctx.tier == "thorough"
    # ---- corpus first
    icorp, gcorp = [], []
    for _name, data in load_corpus(ID):
        (icorp if data["case"]["kind"] == "index" else gcorp).append(data["case"])
    if icorp:
        _merge(ctx, summarise_index(run_index_cases(icorp), "corpus"))
    if gcorp:
        _merge(ctx, summarise_gate(run_gate_cases(gcorp), "corpus"))
    # ---- generated cases: real code, oracle and Lean comparison per shard
    n_index = ctx.budget(2000, 100_000)
    n_gate = ctx.budget(100, 5000)
    shards = 16 if thorough else 1
    base = ctx.seed * 1000
    ijobs = [(base + i, n_index // shards + (1 if i < n_index % shards else 0), str(ctx.repo), True) for i in range(shards)]
    gjobs = [(base + i, n_gate // shards + (1 if i < n_gate % shards else 0), str(ctx.repo), True) for i in range(shards)]
    for sm in _map(index_shard, ijobs, thorough):
        _merge(ctx, sm)
    for sm in _map(gate_shard, gjobs, thorough):
        _merge(ctx, sm)
    ctx.exhaustive = False


def search(ctx: Ctx, broken: list) -> None:
    """A proof or tie is broken and the oracle saw nothing: 10x budget, oracle only."""
    _prepare(str(ctx.repo))
    n_index = ctx.budget(20_000, 200_000)
    n_gate = ctx.budget(1000, 10_000)
    base = ctx.seed * 1000 + 500
    for fn, n in ((index_shard, n_index), (gate_shard, n_gate)):
        for sm in _map(fn, [(base + i, n // 16, str(ctx.repo), False) for i in range(16)], True):
            for what, replay_, sig in sm["oracle"]:
                ctx.oracle_fail(what, replay_, sig)


def replay(ctx: Ctx, data: dict) -> None:
    _prepare(str(ctx.repo))
    case = data["replay"]["case"] if "replay" in data else data["case"]
    res = run_index_cases([case]) if case["kind"] == "index" else run_gate_cases([case])
    for r in res:
        for what, detail, sig in r["fails"]:
            print(f"replay: {what}", file=sys.stderr)
            ctx.oracle_fail(what, {"case": case, "detail": detail}, sig)
