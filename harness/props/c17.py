"""C17 — in-memory indices mirror the cluster; handling waits for the initial index.

Tie (D): random histories of ADDED/MODIFIED/DELETED/listing events over 1-4 objects of 1-3 resource
kinds are pushed through the REAL `processing.process_resource_event` (hence `index_resource`,
`OperatorIndexers.replace/discard`, `Index._replace/_discard`, the in-memory retry state) with a real
registry built by the real `@kopf.index` decorator whose functions return scripted results; after
every event the public read-only views (`indexers.indices`) and the indexing memory are compared
with the Lean model (`C17.run`), and with an independent dictionary reference model written from
docs/indexing.rst (the oracle).

Tie (A): start-ups with 2-3 indexed kinds (+ an optional plain kind) run the REAL
`orchestration.spawn_missing_watchers`, `queueing.watcher`, `queueing.worker`,
`processing.process_resource_event`, `ToggleSet/Toggle` under the virtual-time loop, with
`watching.infinite_watch` replaced by a scripted stream (staggered listings, slow index functions,
re-listings, suspended `make_toggle` calls). Labels are logged at the code's atomic segments and
replayed through the Lean transition system (`C17.gate`); the oracle reads only the stream log, the
index-function call log and the `@kopf.on.event` handler log; `handle` is logged where
`processing.process_resource_causes` is entered (on-event AND change handlers, daemons, timers).

Part S (end to end, harness/props/sim_c17.py): a real `kopf.operator()` against the fake API server —
real discovery/`revise_resources` (which kinds are indexed), real `watching.infinite_watch` (where LISTED
is), real orchestrator — with objects that exist before the start, staggered LIST latencies, slow index
functions, and on-event / create / resume / update handlers, daemons and timers in random subsets per
kind. Nothing of kopf is wrapped: the handler functions log their own start and what their own kwargs
show of every index; the oracle requires every initially listed object of every indexed kind to be
indexed, and visible to the handler, whenever any of them starts.
"""
from __future__ import annotations

import asyncio
import collections.abc
import json
import logging
import multiprocessing
import os
import random
import sys
from typing import Any

from .. import leanio
from ..core import Ctx, load_corpus

ID = "C17"
LEVEL = "proof"
STRENGTH = "partial"      # the gate clause holds for the start-up kinds only (by design: F4); the mirror clause is unconditional
ENGINES = ["lean-model", "purediff", "kopfsim"]
LEVEL_TEXT = (
    "Lean theorems for all event lists / all label interleavings. INDEX clause: no KeyError inside the index "
    "(run_total), forward/reverse consistency, no empty collections, key uniqueness of all three dicts as invariants; "
    "index = groupBy(documented reference) exactly and unconditionally (mirror; finding F1 is repaired in kopf 5068b98 "
    "and kept as a regression example + corpus case), and the key set the other read-only methods (`in`, `len`, truth, "
    "iteration) answer from is exactly the reference's (key_present_iff; the real methods of Index/Store/OperatorIndices "
    "are compared with the documented reference by the oracle after every event); one retry/exclusion memory per object, "
    "whatever key tells the objects apart — also for objects WITHOUT a uid since kopf 8c8cff5 repaired finding C17-F5 "
    "(memory_others_untouched, keyed_follows, mirror_keyed; the old key `uid or ''` is kept as the variant of "
    "shared_memory_witness and as a corpus regression; no case is excluded from the D tie any more); "
    "the model's object is the index key (make_key): for objects without a uid that is (namespace, name) only — namesakes of two "
    "kinds / a predecessor and its successor share one entry (namesakes_share_entry_witness = open finding F6, oracle + corpus); "
    "the Lean reference reads any Mapping result as the code does "
    "(open finding F2 is a docs-vs-code matter, reported by the oracle only); the keep/remove table incl. the "
    "retries=/timeout= budget. GATE clause: safety for every interleaving with any number of spawn_missing_watchers batches incl. the "
    "empty first batch of a namespaced start-up, watcher deaths and respawns: gate_safe for the START-UP kinds (those "
    "of the batches begun before anybody saw the set on: in both real start-ups every kind of the first non-empty "
    "batch), pass_safe/detach_safe for every kind spawned so far; the unrestricted 'every indexed kind' is false of "
    "the code by design for kinds discovered later (late_kind_witness = finding F4). Beyond the property (liveness, "
    "observations only): gate_can_open_iff (from a reachable state the gate can open iff no toggle is stranded; a failed "
    "indexing cycle drops its toggle since kopf 58a504d), gate_stuck_of_leak and a reachable stuck state (a watcher that "
    "ended before LISTED; not repaired: proposals/fix-C17N1). Three broken variants of "
    "the LTS refuted (about mutants, not the code). Tied to the code by differential runs of the real "
    "process_resource_event/indexers (D) and by trace acceptance of real adjust_tasks/spawn_missing_watchers/watcher/"
    "worker/ToggleSet start-ups — cluster-wide and namespaced — under virtual time (A), and end to end by whole-operator "
    "start-ups against the fake API in which change handlers, daemons and timers (not only on-event handlers) report what "
    "their own kwargs show of the indices (S; oracle only, nothing of kopf wrapped). The retry/exclusion half of the "
    "Lean reference shares exhausted/lookahead/awake with the model (definitional there); it is checked independently "
    "only by the Python oracle. LISTED producer (what the gate's input label `listed r` stands for): for every interleaving of "
    "pauses with the rounds of a watch-stream (LIST answered / failed / abandoned because of a pause) every LISTED comes after an "
    "ANSWERED LIST request of its round and after all its items (listed_means_listed), an abandoned round yields nothing, no round "
    "begins while paused; three broken variants refuted; tied to the real infinite_watch/streaming_block/continuous_watch/"
    "watch_objs/list_objs by trace acceptance (L), and the S start-ups run with the REAL peering pausing the operator while the "
    "initial LIST requests are in flight.")
TIE = ("D: real process_resource_event + OperatorIndexers vs Lean model after every event (views in dict order, "
       "retry memory incl. started); A: real orchestration.adjust_tasks (empty first batch in namespaced mode, later "
       "revisions, redundant/dead watchers)/watcher/worker/ToggleSet traces accepted by the Lean LTS (`handle` logged at "
       "the entry of process_resource_causes); S: real kopf.operator() start-ups on the fake API, observed by the handlers' "
       "own kwargs (oracle only), half of them peered: paused by a higher-priority record before/while/after the initial LISTs; "
       "L: real watching.infinite_watch + streaming_block + continuous_watch + watch_objs + fetching.list_objs over a scripted "
       "api.get/api.stream with a real ToggleSet(any) turned on and off: label traces accepted by the Lean LTS of the LISTED producer, "
       "its `out` = what the consumer received")
THEOREMS = [
    ("Kopf.Props.C17", "Kopf.C17.run_total"),
    ("Kopf.Props.C17", "Kopf.C17.fwd_rev_consistent"),
    ("Kopf.Props.C17", "Kopf.C17.no_empty_collections"),
    ("Kopf.Props.C17", "Kopf.C17.keys_unique"),
    ("Kopf.Props.C17", "Kopf.C17.mirror"),
    ("Kopf.Props.C17", "Kopf.C17.mirror_exclusions"),
    ("Kopf.Props.C17", "Kopf.C17.key_present_iff"),
    ("Kopf.Props.C17", "Kopf.C17.others_untouched"),
    ("Kopf.Props.C17", "Kopf.C17.memory_others_untouched"),
    ("Kopf.Props.C17", "Kopf.C17.keyed_follows"),
    ("Kopf.Props.C17", "Kopf.C17.mirror_keyed"),
    ("Kopf.Props.C17", "Kopf.C17.shared_memory_witness"),
    ("Kopf.Props.C17", "Kopf.C17.namesakes_share_entry_witness"),
    ("Kopf.Props.C17", "Kopf.C17.deleted_discards"),
    ("Kopf.Props.C17", "Kopf.C17.mismatch_discards"),
    ("Kopf.Props.C17", "Kopf.C17.excluded_stays_out"),
    ("Kopf.Props.C17", "Kopf.C17.exhausted_discards"),
    ("Kopf.Props.C17", "Kopf.C17.none_keeps"),
    ("Kopf.Props.C17", "Kopf.C17.ignored_error_keeps"),
    ("Kopf.Props.C17", "Kopf.C17.error_discards"),
    ("Kopf.Props.C17", "Kopf.C17.dict_replaces"),
    ("Kopf.Props.C17", "Kopf.C17.scalar_under_none_key"),
    ("Kopf.Props.C17", "Kopf.C17.Gate.gate_safe"),
    ("Kopf.Props.C17", "Kopf.C17.Gate.late_kind_witness"),
    ("Kopf.Props.C17", "Kopf.C17.Gate.pass_safe"),
    ("Kopf.Props.C17", "Kopf.C17.Gate.detach_safe"),
    ("Kopf.Props.C17", "Kopf.C17.Gate.ungated_only_after_ready"),
    ("Kopf.Props.C17", "Kopf.C17.Gate.gate_can_open_iff"),
    ("Kopf.Props.C17", "Kopf.C17.Gate.gate_stuck_of_leak"),
    ("Kopf.Props.C17", "Kopf.C17.Gate.gate_stuck_dead_watcher_witness"),
    ("Kopf.Props.C17", "Kopf.C17.Gate.noBlocker_witness"),
    ("Kopf.Props.C17", "Kopf.C17.Gate.noKindToggle_witness"),
    ("Kopf.Props.C17", "Kopf.C17.Gate.dropBeforeIndex_witness"),
    ("Kopf.Props.C17", "Kopf.C17.Listing.listed_means_listed"),
    ("Kopf.Props.C17", "Kopf.C17.Listing.abandoned_round_is_silent"),
    ("Kopf.Props.C17", "Kopf.C17.Listing.nothing_listed_while_paused"),
    ("Kopf.Props.C17", "Kopf.C17.Listing.abandonedReportsListed_witness"),
    ("Kopf.Props.C17", "Kopf.C17.Listing.listedBeforeItems_witness"),
    ("Kopf.Props.C17", "Kopf.C17.Listing.listWhilePaused_witness"),
]
RULE = ("index: 1-3 @kopf.index handlers (resource x label filter x errors mode x retries x backoff x timeout) over 1-3 "
        "kinds, 1-4 objects incl. delete-and-recreate, 1-14 events with times placed on/around retry and timeout "
        "deadlines; per event and handler a scripted result (dict with 0-2 keys from a colliding alphabet incl. None, "
        "scalar incl. falsy and bool/int twins, a non-dict Mapping (kopf.Memo), None, TemporaryError(delay), "
        "PermanentError, arbitrary exception); a case is distinct by its sequence of (event type, per-handler rule "
        "applied) and non-trivial when it hits a non-set rule, a key collision or a re-keying; 10% of the cases have one to "
        "three objects WITHOUT a uid (half of them with a creationTimestamp, which changes when the object is deleted and "
        "created again under the same name; all in the Lean tie), 12% of the events carry body parts the rules do not look at (deletionTimestamp, foreign "
        "finalizers, annotations, ownerReferences, status); after every event the index is read through __iter__/__getitem__ "
        "AND through __contains__/__len__/__bool__ of Index, Store and the indices container. gate: a start-up through "
        "the real adjust_tasks, cluster-wide (2-3 resources + plain, one batch) or namespaced (1-2 resources x 1-2 "
        "namespaces; the first batch is empty), optionally later revisions (a resource / a namespace discovered later, a "
        "namespace deleted during the listing, a plain revision that respawns dead watchers), watchers whose listing "
        "answers 404, 0-3 listed objects each, staggered dyadic delays with ties, slow index functions, re-listing, "
        "raising when= filters, suspended make_toggle (per kind and per object), short idle timeouts, "
        "settings.queueing.worker_limit 1-3 in a quarter of the runs, the operator stopped in the middle of the start-up in a "
        "quarter of the runs (all watchers cancelled together); distinct by the label sequence. boot (whole operator): "
        "2-3 kinds, >= 1 indexed, each with a random subset of on-event/create/resume/update/daemon/timer handlers (also none, "
        "also no on-event handler), 0-3 objects per kind existing before the start (40% handled by a previous incarnation: "
        "resume instead of create), LIST latency per kind 0-2 s, index functions 0-1 s, 0-3 creations/edits/deletions during the "
        "start-up; LIST requests answered 503 once or twice first (30%); half of the start-ups PEERED (real peering, priority 0): a "
        "higher-priority record is written into the ClusterKopfPeering and removed again 1-2 times (15% also before the start), aimed "
        "at 1/4, 1/2, 3/4 of the in-flight span of a slow LIST, for 1/4-3 s; distinct by kinds x handler sets x order of index/handler starts. "
        "listing (the producer of LISTED): one watch-stream, 3-7 scripted LIST requests (latency 0-2 s; 0-3 items / connection error / "
        "429 / 410), 2-4 watch requests (0-2 events; closed / 410 ERROR event / silent), consumer delay 0-1/4 s, 0-3 pauses through two "
        "pausing toggles aimed into the LIST flights (also at t=0, also in the instant of the answer); distinct by the label sequence, "
        "non-trivial with an abandoned or failed LIST.")
TRUSTED = [
    "abstraction of results to script kinds (mapping result / None / exception class; whether a non-dict Mapping counts as a "
    "mapping result is probed on the OperatorIndexer.replace under test) and of bodies to (kind, ns/name/uid, label); the other "
    "body parts are varied (deletionTimestamp, foreign finalizers, annotations, ownerReferences, status) and must not matter",
    "label instrumentation: ToggleSet subclass + module-attribute wrappers of queueing.watcher/worker, indexing.index_resource, "
    "the processor and a scripted watching.infinite_watch (no source hooks); orchestration.adjust_tasks is called directly "
    "with a real Insights object (the orchestrator's own loop and its task monitoring are C19/C20's subject)",
    "index values are JSON data without floats, index keys are strings or None; object uids are unique across kinds (as in "
    "Kubernetes); GENERATED objects without a uid have unique (namespace, name) pairs across kinds and are created again only "
    "after their DELETED event was processed: the indices address such objects by (namespace, name) alone — namesakes of two "
    "kinds and a predecessor/successor pair handled by two workers share one index entry (open finding C17-F6: corpus "
    "witnesses F6_*, replayed on the real code; the oracle tells such objects apart, the Lean model follows make_key)",
    "part S: harness/sim (virtual-time loop, fake API server with per-kind LIST latency added by a FakeSession subclass), "
    "the handlers' own logs and the fake server's own log of LIST requests (started / answered / 503 / abandoned by the client); "
    "the operator runs cluster-wide; half of the runs standalone, half with the real peering (one foreign record `boss`, priority "
    "9999, written and removed by the scenario)",
    "part L: api.get / api.stream are scripted (everything above them is kopf's: list_objs, watch_objs, continuous_watch, "
    "streaming_block, infinite_watch); `begin`/`endWatch` are logged by a wrapper around watching.streaming_block (module attribute), "
    "`abandon` where the scripted api.get is cancelled (or at the end of a round whose LIST task never reached it)",
    "events are modelled one after another: OperatorIndexers.replace/discard are synchronous and touch only the event's own "
    "object key (theorem others_untouched), so concurrent workers of different objects commute on the indices",
]
ASSUMPTIONS = [
    "timeout= and delays are whole seconds of the loop clock, loop time does not run backwards; index functions of the D "
    "tie return at once (the model stamps `started` and `delayed` with the event's time; a slow index function shifts "
    "`delayed` and the timeout arithmetic by its duration) — modelling limit, not unreachable",
    "handler ids are distinct; filters other than one label filter are C15's subject; sub-handlers of index functions are not modelled",
    "the D tie runs process_resource_event with no_throttling=True (so that an escaping error is seen, not swallowed): a "
    "cycle skipped by the error throttler is not indexed at all — 'after processing any event' is about processed "
    "events; the latest event is processed after the throttle (bounded by error_delays)",
    "'objects seen so far' = events delivered: a deletion the watch never delivers (re-list after 410/pause; open "
    "finding C19-F5) leaves the object's values in the index for good — the index mirrors the event stream, not the cluster",
    "the exclusion/retry table of the Lean reference (awake, exhausted, lookahead) is shared with the model: mirror_* are "
    "decomposition theorems for the index bookkeeping and definitional for that table; a misreading of awakened/look-ahead "
    "would be caught by the D tie (real memory incl. retries/delayed/failure/started) and by the Python oracle only",
    "whether the gate ever opens is liveness and NOT checked by the oracle (C17's gate clause is safety): the failing "
    "indexing cycle (indexFail: toggle dropped, counted as the attempt — kopf 58a504d) and the dying watcher (die, "
    "leaked toggles) are modelled and tied (corpus F3_*, N1_* and ~6%/~12% of generated start-ups); a stranded toggle "
    "is proved fatal (gate_stuck_of_leak)",
    "daemons/timers/change handlers are behind the same single wait_for(True) as @kopf.on.event handlers: in the A runs "
    "only on-event handlers are registered and the `handle` label is the entry of process_resource_causes; that daemons, "
    "timers and change handlers really start behind the gate is checked by the S runs (own kwargs of every handler kind)",
    "an object without a uid that is deleted and created again under the same name is the SAME object for the indices "
    "(make_key: namespace, name, no uid) and — when its creationTimestamp is absent or unchanged — for the memories "
    "(_build_key, as for queueing.get_uid: 'slightly less unique identifiers'): its DELETED event forgets the memory and "
    "discards the values, so nothing leaks into the successor as long as that event is delivered and processed first "
    "(generated and in the corpus); a deletion the watch never delivers is the assumption above",
    "gate_can_open_iff has no worker limit: with settings.queueing.worker_limit below the number of listed objects of one "
    "indexed kind the pending workers keep their toggles and the running ones wait for them — the gate never opens "
    "(liveness, beyond C17; corpus N2_*, generated with worker_limit 1-3)",
]

KINDS = ["kexa", "kexb", "kexc"]
LATE_KIND = "kexd"      # a kind discovered after the start-up (second spawn_missing_watchers batch)
GROUP, VERSION = "kopf.dev", "v1"
F2_SIG = {"site": "OperatorIndexer.replace", "shape": "a non-dict Mapping result is unpacked by key (docs: strictly dict)"}
F6_SIG = {"site": "indexing.OperatorIndexers.make_key", "shape": "objects without a uid are ONE index entry per (namespace, name): a namesake of "
          "another kind, or the late DELETED of a predecessor with another creationTimestamp, discards a live object's values"}
# finding C17-F5 is repaired (kopf 8c8cff5): a failure of this shape is a regression, never a known finding
F5_SIG = {"site": "inventory.ResourceMemories._build_key", "shape": "objects without a uid share one memory: the indexing "
          "retry/exclusion record of one decides for the others", "regression_of": "C17-F5"}


# =================================================================================================
# helpers shared by both parts
# =================================================================================================
def canon(x: Any) -> str:
    return json.dumps(x, sort_keys=True, ensure_ascii=False, separators=(",", ":"))


def to_json_value(v: Any) -> Any:
    """An indexed value as canonical JSON data (Memo/dict → object, tuple → list)."""
    if isinstance(v, collections.abc.Mapping):
        return {str(k): to_json_value(x) for k, x in v.items()}
    if isinstance(v, (list, tuple)):
        return [to_json_value(x) for x in v]
    if v is None or isinstance(v, (bool, int, str)):
        return v
    raise TypeError(f"unexpected indexed value {v!r}")


def _quiet_logging() -> None:
    logging.disable(logging.CRITICAL)


# =================================================================================================
# part D — index content
# =================================================================================================
VALUES = [0, 1, 2, True, False, "a", "b", "", None, [1], [True], {"x": 1}, {"x": True}, 7]
SCALARS = [0, 1, 2, True, False, "a", "", [1], [], 7, "zz"]
KEYS = ["k1", "k2", None]


def gen_script(rng: random.Random) -> list:
    r = rng.random()
    if r < 0.40:
        n = rng.choice([0, 1, 1, 1, 2, 2])
        keys = rng.sample(KEYS, n)
        return ["dict", [[k, rng.choice(VALUES)] for k in keys]]
    if r < 0.51:
        return ["scalar", rng.choice(SCALARS)]
    if r < 0.52:
        return ["memo", [[rng.choice(["k1", "k2"]), rng.choice([1, "a", 7])]]]     # a non-dict Mapping (finding F2)
    if r < 0.66:
        return ["none"]
    if r < 0.80:
        return ["temp", rng.choice([None, 0, 1, 1, 3, 60])]
    if r < 0.88:
        return ["perm"]
    return ["other"]


def gen_index_case(rng: random.Random) -> dict:
    nk = rng.choice([1, 1, 2, 2, 3])
    kinds = KINDS[:nk]
    indexed_kinds = kinds[:max(1, nk - (1 if nk == 3 or rng.random() < 0.2 else 0))] if nk > 1 else kinds
    nix = rng.choice([1, 2, 2, 3])
    indexers = []
    for i in range(nix):
        indexers.append({
            "id": f"i{i + 1}",
            "res": rng.choice(indexed_kinds),
            "want": rng.choice([None, None, "a", "a", "b"]),
            "errors": rng.choice([None, None, "ignored", "temporary", "temporary", "permanent"]),
            "retries": rng.choice([None, None, None, 0, 1, 2, 2, 3]),
            "backoff": rng.choice([None, None, 0, 1, 3]),
            "timeout": rng.choice([None, None, None, None, 0, 2, 4, 10]),
        })
    bk = rng.choice([60, 60, 2])
    nobj = rng.choice([1, 2, 2, 3, 4])
    objs = []
    for j in range(nobj):
        objs.append({"res": rng.choice(kinds), "name": f"o{j % 3}", "ns": rng.choice(["ns", "ns", None]),
                     "uid": f"u{j}", "gen": 0, "live": False})
    if rng.random() < 0.10:
        # objects WITHOUT a uid (kopf: "those rare objects that have no uid but are still exposed via the K8s
        # API"): their identity is (namespace, name) alone in the indices (`make_key`) and kind/apiVersion/name/
        # namespace/creationTimestamp in the memories (`_build_key` since kopf 8c8cff5; before it ONE memory for all
        # of them: the repaired finding C17-F5). Several of them must stay apart in the indices AND in the retry /
        # exclusion memory. Some have a creationTimestamp (it changes when the object is created again), some none
        # (`v1/ComponentStatus`: the re-created object has the very same key — its DELETED event must clean up).
        for n_, o in enumerate(rng.sample(objs, min(len(objs), rng.choice([1, 2, 2, 3])))):
            o["uid"] = None
            o["name"] = f"nouid{n_}"
            o["cts"] = rng.choice([None, f"2020-01-0{n_ + 1}T00:00:00Z"])
    events = []
    t = 0
    # deadlines worth hitting exactly: now + delay of a pending temporary error
    deadlines: list[int] = []
    n = rng.choice([1, 2, 3, 4, 5, 6, 8, 10, 12, 14])
    for _ in range(n):
        o = rng.choice(objs)
        if deadlines and rng.random() < 0.35:
            d = rng.choice(deadlines)
            t = max(t, d + rng.choice([-1, 0, 0, 1]))
        else:
            t += rng.choice([0, 0, 1, 1, 2, 3, 5, 60])
        if o["live"]:
            typ = rng.choice(["MODIFIED", "MODIFIED", "MODIFIED", "DELETED", None, "ADDED"])
        else:
            typ = rng.choice(["ADDED", "ADDED", None, "MODIFIED", "DELETED"] if rng.random() < 0.15 else ["ADDED", None])
        script = {ix["id"]: gen_script(rng) for ix in indexers}
        for ix in indexers:
            s = script[ix["id"]]
            if s[0] == "temp" and s[1]:
                deadlines.append(t + s[1])
            if s[0] == "other" and ix["errors"] == "temporary":
                deadlines.append(t + (ix["backoff"] if ix["backoff"] is not None else bk))
            if ix["timeout"] and s[0] in ("temp", "other"):
                deadlines.append(t + ix["timeout"])
        ev = {"t": t, "res": o["res"], "name": o["name"], "ns": o["ns"], "uid": o["uid"],
              "type": typ, "label": rng.choice([None, "a", "a", "a", "b"]), "script": script}
        if o.get("cts") is not None:
            ev["cts"] = o["cts"]
        if rng.random() < 0.12:
            # parts of the body the documented rules do NOT look at: an object marked for deletion (with or without
            # finalizers), annotated, owned … is a live object until its DELETED event
            ev["extra"] = sorted(rng.sample(["deletionTimestamp", "finalizers", "annotations", "ownerReferences", "status"],
                                            rng.choice([1, 1, 2, 3])))
        events.append(ev)
        if typ == "DELETED":
            o["live"] = False
            o["gen"] += 1
            if o["uid"] is not None:
                o["uid"] = f"{o['uid'].split('-')[0]}-{o['gen']}"   # a recreated object gets a new uid
            elif o.get("cts") is not None:
                o["cts"] = f"{o['cts'][:11]}{o['gen']:02d}:00:00Z"    # … or at least a new creationTimestamp
        else:
            o["live"] = True
    return {"kind": "index", "kinds": kinds, "indexers": indexers, "default_backoff": bk, "events": events}


def objkey(ev: dict) -> str:
    """The object as the INDICES address it (`OperatorIndexers.make_key`: namespace, name, uid) — the model's object."""
    return f"{ev['ns']}/{ev['name']}/{ev['uid']}"


def ident(ev: dict) -> str:
    """The object as the PROPERTY means it ("matching live objects"; oracle only): uids are unique; an object without a
    uid is told apart by kind, namespace, name and creationTimestamp (what queueing.get_uid and — since kopf 8c8cff5 —
    the memories use). Differs from `objkey` for objects without a uid only (open finding C17-F6)."""
    if ev["uid"] is not None:
        return objkey(ev)
    return f"{ev['res']}:{ev['ns']}/{ev['name']}/None@{ev.get('cts')}"


def realise(script: list) -> Any:
    """The Python object an index function returns / the exception it raises for a script entry."""
    import kopf
    from kopf._cogs.structs import ephemera
    kind = script[0]
    if kind == "dict":
        return {k: v for k, v in script[1]}
    if kind == "memo":
        return ephemera.Memo({k: v for k, v in script[1]})
    if kind == "scalar":
        return script[1]
    if kind == "none":
        return None
    if kind == "temp":
        return kopf.TemporaryError("scripted", delay=script[1])
    if kind == "perm":
        return kopf.PermanentError("scripted")
    if kind == "other":
        return ValueError("scripted")
    raise ValueError(kind)


def model_script(script: list, memo_unpacked: bool = True) -> list:
    """Abstraction of a result to the model's script kinds (what the code distinguishes): a non-dict
    Mapping is a mapping result for `isinstance(obj, collections.abc.Mapping)` (the code as it is: open
    finding F2) and a plain value for `type(obj) is dict` (proposals/fix-C17F2) — which of the two the
    code under test does is PROBED on its own OperatorIndexer.replace (`memo_unpacked`), never assumed."""
    if script[0] == "memo":
        return ["dict", script[1]] if memo_unpacked else ["scalar", {str(k): v for k, v in script[1]}]
    return script


def model_request(case: dict, memo_unpacked: bool = True) -> list:
    evs = [{"t": e["t"], "res": e["res"], "obj": objkey(e), "deleted": e["type"] == "DELETED",
            "label": e["label"], "script": {i: model_script(s, memo_unpacked) for i, s in e["script"].items()}}
           for e in case["events"]]
    return ["C17.run", case["indexers"], case["default_backoff"], evs]


async def run_index_case(case: dict) -> dict:
    """Run one history on the real code. Returns per-event snapshots, call logs and errors."""
    import kopf
    from kopf._cogs.configs import configuration
    from kopf._cogs.structs import ephemera, references
    from kopf._core.actions import lifecycles
    from kopf._core.engines import indexing
    from kopf._core.intents import registries
    from kopf._core.reactor import inventory, processing

    registry = registries.OperatorRegistry()
    cur: dict[str, Any] = {}
    calls: list[str] = []

    async def fn(param: str, **_: Any) -> Any:
        calls.append(param)
        r = realise(cur[param])
        if isinstance(r, Exception):
            raise r
        return r

    modes = {None: None, "ignored": kopf.ErrorsMode.IGNORED, "temporary": kopf.ErrorsMode.TEMPORARY,
             "permanent": kopf.ErrorsMode.PERMANENT}
    for ix in case["indexers"]:
        kopf.index(GROUP, VERSION, ix["res"], id=ix["id"], param=ix["id"], registry=registry,
                   labels={"grp": ix["want"]} if ix["want"] is not None else None,
                   errors=modes[ix["errors"]], retries=ix["retries"], backoff=ix["backoff"],
                   timeout=ix.get("timeout"))(fn)
    settings = configuration.OperatorSettings()
    settings.posting.enabled = False
    settings.execution.default_backoff = case["default_backoff"]
    indexers = indexing.OperatorIndexers()
    indexers.ensure(registry._indexing.get_all_handlers())
    memories = inventory.ResourceMemories()
    resources = {k: references.Resource(GROUP, VERSION, k, namespaced=True) for k in KINDS}
    loop = asyncio.get_running_loop()
    snaps, call_log, errors, views = [], [], [], []
    probe = indexing.OperatorIndexer()                    # how does the code under test read a non-dict Mapping?
    probe.replace(("ns", "probe", "probe"), ephemera.Memo({"probe-key": 1}))
    memo_unpacked = "probe-key" in list(probe.index)
    uid2key: dict[str, str] = {}
    for e in case["events"]:
        loop.vtime = float(e["t"])          # SimLoop: virtual loop time, whole seconds
        meta: dict[str, Any] = {"name": e["name"]}
        if e["uid"] is not None:
            meta["uid"] = e["uid"]
        if e["ns"] is not None:
            meta["namespace"] = e["ns"]
        if e["label"] is not None:
            meta["labels"] = {"grp": e["label"]}
        if e.get("cts") is not None:
            meta["creationTimestamp"] = e["cts"]
        body = {"apiVersion": f"{GROUP}/{VERSION}", "kind": e["res"].capitalize(), "metadata": meta, "spec": {"t": e["t"]}}
        for x in e.get("extra", ()):
            if x == "deletionTimestamp":
                meta["deletionTimestamp"] = "2030-01-01T00:00:00Z"
            elif x == "finalizers":
                meta["finalizers"] = ["example.com/foreign"]      # (kopf's own would be patched away: no API here)
            elif x == "annotations":
                meta["annotations"] = {"example.com/note": "x"}
            elif x == "ownerReferences":
                meta["ownerReferences"] = [{"apiVersion": "v1", "kind": "Pod", "name": "p", "uid": "p-uid", "controller": True}]
            elif x == "status":
                body["status"] = {"phase": "Terminating"}
        uid2key[memories._build_key(body)] = objkey(e)  # the memory key of the code under test (HEAD: the uid, or the
        #                                                 surrogate kind//apiVersion//name//namespace//creationTimestamp)
        cur.clear()
        cur.update(e["script"])
        calls.clear()
        err = None
        try:
            await processing.process_resource_event(
                lifecycle=lifecycles.all_at_once, indexers=indexers, registry=registry, settings=settings,
                memories=memories, memobase=ephemera.Memo(), resource=resources[e["res"]],
                raw_event={"type": e["type"], "object": body}, event_queue=asyncio.Queue(), no_throttling=True)
        except Exception as exc:  # an exception escaping the indexing is itself an observation
            err = type(exc).__name__
        errors.append(err)
        call_log.append(sorted(calls))
        # the public read-only views, in their own iteration order
        view = {}
        for iid in indexers.indices:
            index = indexers.indices[iid]
            view[iid] = [[k, [to_json_value(v) for v in index[k]]] for k in index]
        mem: dict[str, dict[str, list]] = {}
        for uid, memory in memories._items.items():
            state = memory.indexing_memory.indexing_state
            if state is None:
                continue
            ent = {}
            for hid, hs in state._states.items():
                delayed = None if hs.delayed is None else int(round((hs.delayed - hs.basetime).total_seconds()))
                started = int(round((hs.started - hs.basetime).total_seconds()))
                ent[str(hid)] = [hs.retries, delayed, bool(hs.failure), started]
            if ent:
                mem[uid2key.get(uid, uid)] = ent
        snaps.append({"ix": view, "mem": mem})
        # every other read-only method of the views a handler can use (`in`, `len`, truth, lookups)
        probes_k = KEYS + ["zz"]
        probes_v = [0, 1, True, "a", "", [1], {"x": 1}, 7, "zz", None]
        ro: dict[str, Any] = {"ids": list(indexers.indices), "n": len(indexers.indices),
                              "has": {i: (i in indexers.indices) for i in [ix["id"] for ix in case["indexers"]] + ["nope"]},
                              "ix": {}}
        for iid in indexers.indices:
            index = indexers.indices[iid]
            ent: dict[str, Any] = {"len": len(index), "bool": bool(index),
                                   "has": [[k, k in index] for k in probes_k], "missing_raises": None, "stores": []}
            try:
                index["zz-absent"]
                ent["missing_raises"] = False
            except KeyError:
                ent["missing_raises"] = True
            for k in index:
                st = index[k]
                ent["stores"].append([k, {"len": len(st), "bool": bool(st), "has": [[v, v in st] for v in probes_v]}])
            ro["ix"][iid] = ent
        views.append(ro)
    return {"snaps": snaps, "calls": call_log, "errors": errors, "views": views, "memo_unpacked": memo_unpacked}


# ---- the oracle: a dictionary reference model written from docs/indexing.rst --------------------
def oracle_index(case: dict, obs: dict) -> list[tuple[str, dict, dict]]:
    """The documented rules; a failure is attributed to F2 only when it vanishes once a non-dict Mapping
    is read the way the code reads it, to a regression of the repaired F5 only when it vanishes once the
    objects without a uid share one retry memory as they did before kopf 8c8cff5 (and to F1 only when the
    views are equal up to Python's ==). Only F2 is an open finding: the others are VIOLATIONs."""
    fails = _oracle_index(case, obs, memo_as_dict=False)
    memo, nouid, byname = _memo_seen(case, len(case["events"])), len(_uidless(case)) > 1, len(_uidless(case)) > 0
    if fails and (memo or byname):
        def fid(f: tuple) -> tuple:
            return (f[1].get("event"), f[1].get("index"), f[2].get("site"))

        cache: dict[tuple, set] = {}

        def left(memo_as_dict: bool, shared: bool, by_name: bool) -> set:
            k = (memo_as_dict, shared, by_name)
            if k not in cache:
                cache[k] = {fid(f) for f in _oracle_index(case, obs, memo_as_dict=memo_as_dict, uidless_shared=shared,
                                                          by_name=by_name)}
            return cache[k]
        # the readings of the code (F2: a non-dict Mapping is unpacked; F6: uid-less objects are one index entry per
        # namespace/name) and of the OLD code (F5: one memory for all uid-less objects), smallest sets first
        readings = [(m, sh, bn) for n_ in (1, 2, 3) for m in (False, True) for sh in (False, True) for bn in (False, True)
                    if m + sh + bn == n_ and (memo or not m) and (nouid or not sh) and (byname or not bn)]

        def attribute(f: tuple) -> dict:
            if f[2].get("site") in ("index_resource", "OperatorIndexers", "OperatorIndices") and f[2].get("shape") != "wrong set of index functions invoked":
                return f[2]
            for m, sh, bn in readings:
                if fid(f) not in left(m, sh, bn):       # gone once the case is read that way
                    return F5_SIG if sh else F6_SIG if bn else F2_SIG    # F5 is repaired: it must not be back
            return f[2]
        fails = [(w, d, attribute((w, d, sg))) for (w, d, sg) in fails]
    return fails


def _uidless(case: dict) -> set[str]:
    return {ident(e) for e in case["events"] if e["uid"] is None}


def _oracle_index(case: dict, obs: dict, memo_as_dict: bool, uidless_shared: bool = False,
                  by_name: bool = False) -> list[tuple[str, dict, dict]]:
    """Returns failures as (what, detail, signature). Reads only the documented rules and the
    implementation-level observations (views, call log, escaped errors). `uidless_shared` (attribution
    run only): the retry/exclusion memory of objects without a uid is ONE record, as before kopf 8c8cff5.
    `by_name` (attribution run only): objects without a uid are one index entry per (namespace, name), whatever
    their kind and creationTimestamp, and an event of such an object of an indexed kind discards that entry
    from the indices of the other kinds too — as `make_key`/`OperatorIndexers.replace` do (open finding F6)."""
    fails: list[tuple[str, dict, dict]] = []
    ixs = {ix["id"]: ix for ix in case["indexers"]}
    vals: dict[tuple[str, str], dict] = {}       # (index, object) -> {key: value}: the latest results
    excl: dict[tuple[str, str], Any] = {}        # (index, object) -> ("until", t) | "forever"
    fails_in_row: dict[tuple[str, str], int] = {}
    first_fail: dict[tuple[str, str], int] = {}  # (index, object) -> time of the first failure of the running series
    indexed_kinds = {ix["res"] for ix in case["indexers"]}
    for n, e in enumerate(case["events"]):
        o = objkey(e) if by_name else ident(e)
        expect_calls = []
        shared = uidless_shared and e["uid"] is None
        if shared and e["type"] == "DELETED":   # (attribution run: the one shared memory is forgotten as a whole)
            for iid in ixs:
                for d_ in (excl, fails_in_row, first_fail):
                    d_.pop((iid, "<no-uid>"), None)
        for iid, ix in ixs.items():
            pv = (iid, o)                       # the object's values in this index
            p = (iid, "<no-uid>") if shared else (iid, ident(e))     # its retry/exclusion record
            if ix["res"] != e["res"]:
                if by_name and e["uid"] is None and e["res"] in indexed_kinds:
                    vals.pop(pv, None)          # (attribution run: the namesake's entry is discarded)
                continue                        # objects of other kinds never enter this index
            if e["type"] == "DELETED":
                vals.pop(pv, None)              # "deleted …: all associated values are removed"
                excl.pop(p, None)
                fails_in_row.pop(p, None)
                first_fail.pop(p, None)
                continue
            if ix["want"] is not None and e["label"] != ix["want"]:
                vals.pop(pv, None)               # "stops matching the filters: … removed"
                continue
            x = excl.get(p)
            if x == "forever" or (isinstance(x, tuple) and x[1] > e["t"]):
                vals.pop(pv, None)               # "exclude the failed resource from (future) indexing"
                continue
            if ix["retries"] is not None and fails_in_row.get(p, 0) >= ix["retries"]:
                vals.pop(pv, None)               # the retry limit is used up (incl. retries=0): permanent
                excl[p] = "forever"
                continue
            if ix.get("timeout") is not None and e["t"] - first_fail.get(p, e["t"]) >= ix["timeout"]:
                vals.pop(pv, None)               # "timeout= … the overall duration from the first failure": permanent
                excl[p] = "forever"
                continue
            expect_calls.append(iid)
            s = e["script"][iid]
            kind = s[0]
            mode = ix["errors"] or "ignored"    # "errors=IGNORED (the default)"
            if kind == "dict":
                vals[pv] = {canon(k): (k, v) for k, v in s[1]}
                excl.pop(p, None); fails_in_row.pop(p, None); first_fail.pop(p, None)
            elif kind == "memo" and memo_as_dict:   # (attribution run only: the code's reading)
                vals[pv] = {canon(k): (k, v) for k, v in s[1]}
                excl.pop(p, None); fails_in_row.pop(p, None); first_fail.pop(p, None)
            elif kind == "memo":                # "strictly dict — not … even a subclass of dict, such as kopf.Memo"
                vals[pv] = {canon(None): (None, {str(k): v for k, v in s[1]})}
                excl.pop(p, None); fails_in_row.pop(p, None); first_fail.pop(p, None)
            elif kind == "scalar":              # "the key is assumed to be None"
                vals[pv] = {canon(None): (None, s[1])}
                excl.pop(p, None); fails_in_row.pop(p, None); first_fail.pop(p, None)
            elif kind == "none" or (kind == "other" and mode == "ignored"):
                excl.pop(p, None); fails_in_row.pop(p, None); first_fail.pop(p, None)   # "existing values … are preserved as-is"
            elif kind == "perm" or (kind == "other" and mode == "permanent"):
                vals.pop(pv, None)
                excl[p] = "forever"
            else:                               # TemporaryError / arbitrary with errors=TEMPORARY
                vals.pop(pv, None)
                delay = s[1] if kind == "temp" else (ix["backoff"] if ix["backoff"] is not None else case["default_backoff"])
                fails_in_row[p] = fails_in_row.get(p, 0) + 1
                first_fail.setdefault(p, e["t"])
                if ix["retries"] is not None and fails_in_row[p] >= ix["retries"]:
                    excl[p] = "forever"         # "retries= … until the resource is marked as permanently excluded"
                elif delay:
                    excl[p] = ("until", e["t"] + delay)
                else:
                    excl.pop(p, None)           # "set to 0 or None for no delay"
        # ---- compare with what the real code shows after this event
        where = {"event": n}
        if obs["errors"][n] is not None:
            fails.append((f"processing event #{n} raised {obs['errors'][n]} out of the indexing",
                          where, {"site": "index_resource", "shape": "exception escapes", "error": obs["errors"][n]}))
            continue
        if e["res"] in indexed_kinds and sorted(expect_calls) != obs["calls"][n]:
            fails.append((f"event #{n}: index functions called {obs['calls'][n]}, the documented rules call {sorted(expect_calls)}",
                          where, {"site": "index_resource", "shape": "wrong set of index functions invoked"}))
        view = obs["snaps"][n]["ix"]
        for iid in ixs:
            if iid not in view:
                fails.append((f"index {iid} does not exist", where, {"site": "OperatorIndexers", "shape": "index missing"}))
                continue
            want: dict[str, list] = {}
            for (i2, _o), d in vals.items():
                if i2 == iid:
                    for ck, (_k, v) in d.items():
                        want.setdefault(ck, []).append(v)
            got: dict[str, list] = {}
            for k, vs in view[iid]:
                if not vs:
                    fails.append((f"event #{n}: index {iid} keeps an empty collection under {k!r}",
                                  where, {"site": "Index._discard", "shape": "empty collection left"}))
                got.setdefault(canon(k), []).extend(vs)
            strict = lambda d: {k: sorted(canon(v) for v in vs) for k, vs in d.items()}
            if strict(want) != strict(got):
                sig = {"site": "index-content", "shape": "index differs from the documented reference"}
                if _equal_up_to_python_eq(want, got):     # the repaired C17-F1: would be a regression of kopf 5068b98
                    sig = {"site": "Store._replace", "shape": "a value == to the stored one (True/1/0/False) was not stored",
                           "regression_of": "C17-F1"}
                fails.append((f"event #{n}: index {iid} is {got}, the documented rules give {want}",
                              {"event": n, "index": iid, "got": got, "want": want}, sig))
            # ---- the same index through every other read-only method of the views (what a handler's
            #      `key in index`, `len(index)`, `if index:`, `value in index[key]` … answer)
            ro = (obs.get("views") or [None] * (n + 1))[n]
            if ro is not None and iid in ro["ix"] and strict(want) == strict(got):   # (a wrong content is reported above)
                r = ro["ix"][iid]
                wantk = {ck: vs for ck, vs in want.items() if vs}
                bad = []
                if r["len"] != len(wantk):
                    bad.append(f"len(index) = {r['len']}, {len(wantk)} keys hold values")
                if r["bool"] != bool(wantk):
                    bad.append(f"bool(index) = {r['bool']}")
                for k, has in r["has"]:
                    if has != (canon(k) in wantk):
                        bad.append(f"({k!r} in index) = {has}")
                if r["missing_raises"] is not True:
                    bad.append("index[<absent key>] does not raise KeyError")
                seen_keys = set()
                for k, st in r["stores"]:
                    seen_keys.add(canon(k))
                    wv = wantk.get(canon(k), [])
                    if st["len"] != len(wv):
                        bad.append(f"len(index[{k!r}]) = {st['len']}, {len(wv)} objects contribute")
                    if st["bool"] != bool(wv):
                        bad.append(f"bool(index[{k!r}]) = {st['bool']}")
                    for v, has in st["has"]:
                        if has != any(x == v for x in wv):      # `in` on a collection of values: Python's ==
                            bad.append(f"({v!r} in index[{k!r}]) = {has}")
                if seen_keys != set(wantk):
                    bad.append(f"iter(index) yields {sorted(seen_keys)}")
                if bad:
                    fails.append((f"event #{n}: index {iid} answers wrongly through its read-only methods: {bad[:4]}; "
                                  f"the documented rules give {want}", {"event": n, "index": iid, "views": bad[:8]},
                                  {"site": "index-views", "shape": "a read-only method of Index/Store disagrees with the index content"}))
        ro = (obs.get("views") or [None] * (n + 1))[n]
        if ro is not None:
            ids = sorted(ixs)
            if sorted(ro["ids"]) != ids or ro["n"] != len(ids) or any(ro["has"].get(i) is not True for i in ids) \
                    or ro["has"].get("nope") is not False:
                fails.append((f"event #{n}: the indices container lists {ro['ids']} (len {ro['n']}, has {ro['has']}), "
                              f"the registered index handlers are {ids}", where,
                              {"site": "OperatorIndices", "shape": "the read-only container of indices disagrees with the registered index handlers"}))
    return fails


def _memo_seen(case: dict, upto: int) -> bool:
    return any(s[0] == "memo" for e in case["events"][:upto + 1] for s in e["script"].values())


def _equal_up_to_python_eq(want: dict, got: dict) -> bool:
    """Same keys, and per key the value multisets can be matched with Python's `==`."""
    if set(want) != set(got):
        return False
    for k in want:
        a, b = list(want[k]), list(got[k])
        if len(a) != len(b):
            return False
        for x in a:
            for i, y in enumerate(b):
                if x == y:
                    del b[i]
                    break
            else:
                return False
    return True


def classify_index_case(case: dict, obs: dict) -> tuple[str, bool, dict]:
    """Abstracted case (for the distinct count) and its tags."""
    tags: dict[str, int] = {}
    seq = []
    collision = rekey = False
    prev_keys: dict[tuple[str, str], tuple] = {}
    for n, e in enumerate(case["events"]):
        called = set(obs["calls"][n])
        per = []
        for ix in case["indexers"]:
            iid = ix["id"]
            if e["type"] == "DELETED":
                k = "deleted"
            elif ix["res"] != e["res"]:
                k = "other-kind"
            elif ix["want"] is not None and e["label"] != ix["want"]:
                k = "mismatch"
            elif iid not in called:
                k = "excluded"
            else:
                s = e["script"][iid]
                k = s[0] if s[0] != "other" else f"other/{ix['errors'] or 'default'}"
                if s[0] == "dict":
                    keys = tuple(sorted(canon(x[0]) for x in s[1]))
                    p = (iid, objkey(e))
                    if p in prev_keys and prev_keys[p] != keys:
                        rekey = True
                    prev_keys[p] = keys
                    k = f"dict{len(s[1])}"
            per.append(k)
            tags[k] = tags.get(k, 0) + 1
        seq.append([e["type"] or "LISTED-OBJ", per])
        for iid, items in obs["snaps"][n]["ix"].items():
            if any(len(vs) > 1 for _k, vs in items):
                collision = True
    nontrivial = collision or rekey or any(k not in ("dict1", "dict2", "scalar") for k in tags)
    tags["_collision"] = int(collision)
    tags["_rekey"] = int(rekey)
    return canon(seq), nontrivial, tags


# =================================================================================================
# part A — the start-up gate
# =================================================================================================
DELAYS = [0, 0, 1 / 64, 1 / 64, 1 / 32, 1 / 16, 1 / 4, 1 / 4, 1.0]
F4_SIG = {"site": "queueing.watcher", "shape": "a watcher that has seen the gate open never gates again: "
                                                "an indexed kind discovered later is not awaited"}


def _wname(res: str, ns: str | None) -> str:
    return f"{res}@{ns}"


def _gen_stream(rng: random.Random, w: str, index_delay: dict, counter: list, *, allow_die: bool) -> list:
    items: list[dict] = []
    listed_objs: list[str] = []
    for _ in range(rng.choice([0, 1, 1, 2, 3])):
        counter[0] += 1
        u = f"{w}-{counter[0]}"
        listed_objs.append(u)
        items.append({"delay": rng.choice(DELAYS), "type": None, "uid": u})
        index_delay[u] = rng.choice(DELAYS)
    if allow_die and rng.random() < 0.5:
        items.append({"delay": rng.choice(DELAYS), "die": 404})       # the listing fails for good: 404
        return items
    items.append({"delay": rng.choice(DELAYS), "listed": True})
    for _ in range(rng.choice([0, 0, 1, 2, 3])):
        if listed_objs and rng.random() < 0.5:
            items.append({"delay": rng.choice(DELAYS), "type": rng.choice(["MODIFIED", "MODIFIED", "DELETED"]),
                          "uid": rng.choice(listed_objs)})
        else:
            counter[0] += 1
            u = f"{w}-{counter[0]}"
            listed_objs.append(u)
            index_delay[u] = rng.choice(DELAYS)
            items.append({"delay": rng.choice(DELAYS), "type": "ADDED", "uid": u})
    if rng.random() < 0.2:              # the watch is restarted (410 Gone): listing again, LISTED again
        for u in listed_objs[:2]:
            items.append({"delay": rng.choice(DELAYS), "type": None, "uid": u})
        items.append({"delay": rng.choice(DELAYS), "listed": True})
    if allow_die and rng.random() < 0.3:
        items.append({"delay": rng.choice(DELAYS), "die": 404})       # the kind vanishes later
    return items


def gen_gate_case(rng: random.Random) -> dict:
    """A start-up as the real orchestrator sees it: `mode` cluster = one revision with namespaces {None};
    namespaced = a first revision WITHOUT namespaces (empty batch), then the namespaces."""
    mode = rng.choice(["cluster", "namespaced", "namespaced"])
    n_res = rng.choice([2, 2, 3]) if mode == "cluster" else rng.choice([1, 2])
    resources = [{"name": KINDS[i], "indexed": True} for i in range(n_res)]
    if mode == "cluster" and n_res < 3 and rng.random() < 0.5:
        resources.append({"name": KINDS[n_res], "indexed": False})
    if mode == "namespaced" and n_res == 2 and rng.random() < 0.3:
        resources[1]["indexed"] = False
    rng.shuffle(resources)
    namespaces = [None] if mode == "cluster" else rng.choice([["ns1"], ["ns1", "ns2"], ["ns1", "ns2"]])
    index_delay: dict[str, float] = {}
    counter = [0]
    streams: dict[str, list] = {}
    die_ok = rng.random() < 0.12          # some runs have a watcher that ends (404) — N1
    for r in resources:
        for ns in namespaces:
            streams[_wname(r["name"], ns)] = _gen_stream(rng, _wname(r["name"], ns), index_delay, counter,
                                                         allow_die=die_ok and r["indexed"])
    revisions: list[dict] = []
    if rng.random() < 0.3:                # discovered later: a resource (cluster) or a namespace (namespaced)
        rev: dict[str, Any] = {"delay": rng.choice([1 / 64, 1 / 4, 1.0, 3.0])}
        if mode == "cluster":
            rev["add_resource"] = {"name": LATE_KIND, "indexed": rng.random() < 0.8}
            new_w = [_wname(LATE_KIND, None)]
        else:
            rev["add_namespace"] = "ns9"
            new_w = [_wname(r["name"], "ns9") for r in resources]
        for w in new_w:
            streams[w] = _gen_stream(rng, w, index_delay, counter, allow_die=False)
        revisions.append(rev)
    if mode == "namespaced" and len(namespaces) > 1 and rng.random() < 0.1:
        revisions.append({"delay": rng.choice([0, 1 / 64, 1 / 4]), "drop_namespace": namespaces[-1]})   # deleted during/after listing
    if die_ok or rng.random() < 0.1:
        revisions.append({"delay": rng.choice([1 / 4, 1.0, 3.0])})          # any later revision: dead watchers are respawned
    revisions.sort(key=lambda r: r["delay"])
    filter_raises = []
    if rng.random() < 0.06 and index_delay:
        filter_raises = [rng.choice(sorted(index_delay))]      # the when= filter raises for this object
    return {"kind": "gate", "mode": mode, "resources": resources, "namespaces": namespaces, "revisions": revisions,
            "streams": streams, "streams_again": {}, "index_delay": index_delay, "filter_raises": filter_raises,
            "toggle_delay": [rng.choice([0, 0, 0, 1 / 64, 1 / 16, 1 / 4]) for _ in range(8)],
            "obj_toggle_delay": rng.choice([0, 0, 0, 1 / 64, 1 / 16, 1 / 4]),
            "idle_timeout": rng.choice([5.0, 5.0, 0.25, 1 / 16]),
            "handler_delay": rng.choice([0, 0, 1 / 64, 1 / 4]),
            # settings.queueing.worker_limit: workers beyond it stay pending WITH their toggles made (white-box N2)
            "worker_limit": rng.choice([None] * 9 + [1, 2, 3]),
            # the operator is stopped in the middle of the start-up (all watchers cancelled together)
            "stop_at": rng.choice([None] * 8 + [1 / 64, 1 / 4, 1.0])}


async def run_gate_case(case: dict) -> dict:
    import kopf
    from kopf._cogs.aiokits import aiotoggles
    from kopf._cogs.clients import errors, watching
    from kopf._cogs.configs import configuration
    from kopf._cogs.structs import ephemera, references
    from kopf._core.actions import lifecycles
    from kopf._core.engines import indexing, peering
    from kopf._core.intents import registries
    from kopf._core.reactor import inventory, orchestration, processing, queueing
    import itertools

    labels: list[list] = []          # the label trace for the Lean LTS, each with a snapshot
    obslog: list[tuple] = []         # implementation-level observations for the oracle
    namespaced = case["mode"] == "namespaced"
    res_defs = list(case["resources"]) + [rv["add_resource"] for rv in case["revisions"] if "add_resource" in rv]
    is_indexed = {r["name"]: r["indexed"] for r in res_defs}
    resources = {r["name"]: references.Resource(GROUP, VERSION, r["name"], namespaced=namespaced) for r in res_defs}
    plural_of = {r: k for k, r in resources.items()}

    def wname(resource: Any, ns: Any) -> str:
        return _wname(plural_of[resource], ns)

    cur_obj: "dict[asyncio.Task, tuple[str, str]]" = {}
    entered: "set[asyncio.Task]" = set()      # tasks whose current cycle has entered index_resource
    ungated: "set[asyncio.Task]" = set()
    crashed: list[str] = []
    watcher_of: "dict[asyncio.Task, str]" = {}
    idle: set[tuple[str, str]] = set()
    pending_listed: dict[str, bool] = {}
    incarnation: dict[str, int] = {}
    toggle_delays = list(case["toggle_delay"])
    state = {"closing": False}
    insights = references.Insights()
    box: dict[str, Any] = {}

    class LoggedToggleSet(aiotoggles.ToggleSet):
        def snap(self) -> dict:
            return {"n": len(self), "on": aiotoggles.ToggleSet.is_on(self)}

        def is_on(self) -> bool:
            res = super().is_on()
            k = watcher_of.get(asyncio.current_task())
            if k is not None:                                     # asked by a watcher task: the check before a per-object toggle
                frame, key = sys._getframe(1), None               # (wherever the test lives: the watcher's frame holds `key`)
                while frame is not None and key is None:
                    cand = frame.f_locals.get("key")
                    key = cand if isinstance(cand, tuple) and len(cand) == 2 else None
                    frame = frame.f_back
                labels.append(["check", k, str(key[1]) if key else None, res, self.snap()])
            return res

        async def make_toggle(self, *a: Any, name: str | None = None, **kw: Any) -> aiotoggles.Toggle:
            if name == "orchestration blocker":
                t = await super().make_toggle(*a, name=name, **kw)
                # what this spawn_missing_watchers call is going to spawn, in its own iteration order
                ens = box["ensemble"]
                todo: list[list] = []
                for resource, ns in itertools.product(insights.watched_resources, insights.namespaces):
                    ns = ns if resource.namespaced else None
                    k = wname(resource, ns)
                    if orchestration.EnsembleKey(resource=resource, namespace=ns) not in ens.watcher_tasks \
                            and k not in [x[0] for x in todo]:
                        todo.append([k, resource in insights.indexed_resources])
                labels.append(["spawnBegin", todo, self.snap()])
                return t
            if "@" in (name or "") and not (name or "").startswith("("):
                d = toggle_delays.pop(0) if toggle_delays else 0
                if d:
                    await asyncio.sleep(d)      # an await point that suspends (as lock contention would)
            elif case.get("obj_toggle_delay"):
                await asyncio.sleep(case["obj_toggle_delay"])   # the gap between is_on() and adding the toggle
            return await super().make_toggle(*a, name=name, **kw)

        async def drop_toggle(self, toggle: aiotoggles.Toggle) -> None:
            await super().drop_toggle(toggle)
            name = toggle.name or ""
            if name == "orchestration blocker":
                labels.append(["spawnEnd", self.snap()])
            elif not name.startswith("("):                          # f"{resource}@{namespace}"
                k = watcher_of.get(asyncio.current_task())
                pending_listed[k] = False
                labels.append(["listed", k, self.snap()])
            else:                                                   # a per-object toggle, by its worker
                ro = cur_obj.get(asyncio.current_task())
                if ro is not None and _indexed_in_cycle(labels, ro):
                    labels.append(["drop", ro[0], ro[1], self.snap()])
                elif ro is not None:
                    # kopf 58a504d: dropped in the `finally:` / the throttled branch although
                    # index_resource did not return (raised, skipped, cancelled): the attempt counts
                    labels.append(["indexFail", ro[0], ro[1], self.snap()])

        async def wait_for(self, state_: bool) -> None:
            ro = cur_obj.get(asyncio.current_task())
            if ro is not None and not _dropped_label(labels, ro):
                # the worker had no own toggle (plain kind): the drop step was a no-op
                labels.append(["drop", ro[0], ro[1], self.snap()])
            await super().wait_for(state_)
            if ro is not None:
                labels.append(["pass", ro[0], ro[1], self.snap()])

    gate = LoggedToggleSet(all)

    def _indexed_in_cycle(ls: list, ro: tuple[str, str]) -> bool:
        # has index_resource returned in this worker's current cycle?
        for l in reversed(ls):
            if l[0] in ("arrive", "again", "indexFail") and l[1] == ro[0] and l[2] == ro[1]:
                return False
            if l[0] == "index" and l[1] == ro[0] and l[2] == ro[1]:
                return True
        return False

    def _dropped_label(ls: list, ro: tuple[str, str]) -> bool:
        # has this worker's current cycle already logged its `drop`?
        for l in reversed(ls):
            if l[0] in ("index",) and l[1] == ro[0] and l[2] == ro[1]:
                return False
            if l[0] == "drop" and l[1] == ro[0] and l[2] == ro[1]:
                return True
        return False

    # ---- real handlers via the real decorators
    registry = registries.OperatorRegistry()

    async def index_fn(param: str, uid: str, name: str, namespace: Any, **_: Any) -> Any:
        k = _wname(param, namespace)
        obslog.append(("index-start", k, uid))
        d = case["index_delay"].get(uid, 0)
        if d:
            await asyncio.sleep(d)
        obslog.append(("index-end", k, uid))
        return {name: uid}

    async def event_fn(param: str, uid: str, namespace: Any, **_: Any) -> None:
        k = _wname(param, namespace)
        obslog.append(("handler-start", k, uid))
        if not any(l[0] == "handle" and l[1] == k and l[2] == uid for l in labels[cycle_from.get((k, uid), 0):]):
            labels.append(["handle", k, uid, gate.snap()])      # (process_resource_causes was not seen entering)
        if case.get("handler_delay"):
            await asyncio.sleep(case["handler_delay"])

    def when_fn(uid: str, **_: Any) -> bool:
        if uid in case.get("filter_raises", ()):
            raise RuntimeError("scripted failure in a when= filter")
        return True

    for k in resources:
        if is_indexed[k]:
            kopf.index(GROUP, VERSION, k, id=f"idx_{k}", param=k, registry=registry,
                       when=when_fn if case.get("filter_raises") else None)(index_fn)
        kopf.on.event(GROUP, VERSION, k, id=f"ev_{k}", param=k, registry=registry)(event_fn)

    settings = configuration.OperatorSettings()
    settings.posting.enabled = False
    settings.queueing.idle_timeout = case["idle_timeout"]
    if case.get("worker_limit") is not None:
        settings.queueing.worker_limit = case["worker_limit"]     # pending workers hold their toggles unstarted
    indexers = indexing.OperatorIndexers()
    indexers.ensure(registry._indexing.get_all_handlers())
    memories = inventory.ResourceMemories()

    # ---- module-attribute wrappers (restored in `finally`)
    real_index_resource = indexing.index_resource
    real_worker = queueing.worker
    real_watcher = queueing.watcher
    real_infinite_watch = watching.infinite_watch

    async def index_resource_logged(**kw: Any) -> None:
        ro = cur_obj.get(asyncio.current_task())
        entered.add(asyncio.current_task())
        try:
            await real_index_resource(**kw)
        except BaseException:
            if ro is not None:
                obslog.append(("index-raised", ro[0], ro[1]))      # the attempt is over (a filter raised, …): kopf 58a504d
            raise
        if ro is not None:
            obslog.append(("index-returned", ro[0], ro[1]))
            labels.append(["index", ro[0], ro[1], gate.snap()])
            if asyncio.current_task() in ungated:       # `operator_indexed is None`: no drop, no wait
                labels.append(["skip", ro[0], ro[1], gate.snap()])

    def worker_logged(**kw: Any) -> Any:
        _resource, uid = kw["key"]
        k = watcher_of.get(asyncio.current_task())       # the worker coroutine is created inside its watcher
        gated = kw.get("operator_indexed") is not None
        has_toggle = kw.get("resource_indexed") is not None
        idle.discard((k, str(uid)))
        labels.append(["arrive", k, str(uid), gated, has_toggle, gate.snap()])
        return real_worker(**kw)

    def watcher_logged(**kw: Any) -> Any:
        k = wname(kw["resource"], kw["namespace"])
        incarnation[k] = incarnation.get(k, 0) + 1
        obslog.append(("spawned", k))
        labels.append(["spawn", k, gate.snap()])

        async def run() -> None:
            watcher_of[asyncio.current_task()] = k
            try:
                await real_watcher(**kw)
            finally:
                if not state["closing"]:                 # the watcher ended on its own / was cancelled as redundant
                    for ro in [x for x in idle if x[0] == k]:
                        idle.discard(ro)
                    obslog.append(("watcher-ended", k))
                    labels.append(["die", k, gate.snap()])
        return run()

    async def scripted_watch(*, settings: Any, resource: Any, namespace: Any, operator_paused: Any = None, **_: Any):
        k = wname(resource, namespace)
        script = case["streams"].get(k, [{"delay": 0, "listed": True}]) if incarnation.get(k, 1) <= 1 \
            else case.get("streams_again", {}).get(k, [{"delay": 0, "listed": True}])
        for item in script:
            if item["delay"]:
                await asyncio.sleep(item["delay"])
            if item.get("die"):
                raise errors.APINotFoundError("scripted: the resource is gone", status=404, headers={})
            if item.get("listed"):
                obslog.append(("listed-yield", k))
                pending_listed[k] = True
                yield watching.Bookmark.LISTED
                if pending_listed.get(k):       # no toggle was dropped for it (plain kind / detached watcher)
                    labels.append(["listed", k, gate.snap()])
                    pending_listed[k] = False
            else:
                u = item["uid"]
                obslog.append(("yield", k, u, item["type"]))
                meta = {"name": u, "uid": u, "resourceVersion": str(len(obslog))}
                if namespace is not None:
                    meta["namespace"] = namespace
                yield {"type": item["type"], "object": {
                    "apiVersion": f"{GROUP}/{VERSION}", "kind": plural_of[resource].capitalize(), "metadata": meta}}
        await asyncio.Event().wait()            # the watch stays open, silent

    real_processor = processing.process_resource_event
    real_causes = processing.process_resource_causes
    cycle_from: dict[tuple[str, str], int] = {}

    async def causes_logged(**kw: Any) -> Any:
        # `handle` = process_resource_causes begins: on-event AND change handlers, daemons, timers are all behind it
        ro = cur_obj.get(asyncio.current_task())
        if ro is not None:
            labels.append(["handle", ro[0], ro[1], gate.snap()])
        return await real_causes(**kw)

    async def processor(*, resource: Any, raw_event: Any, **kw: Any) -> Any:
        k = wname(resource, raw_event["object"]["metadata"].get("namespace"))
        u = str(raw_event["object"]["metadata"]["uid"])
        task = asyncio.current_task()
        cur_obj[task] = (k, u)
        if kw.get("operator_indexed") is None:
            ungated.add(task)
        if (k, u) in idle:
            idle.discard((k, u))
            labels.append(["again", k, u, gate.snap()])
        started = len(labels)
        cycle_from[(k, u)] = started
        entered.discard(task)
        try:
            return await real_processor(
                lifecycle=lifecycles.all_at_once, registry=registry, settings=settings, indexers=indexers,
                memories=memories, memobase=ephemera.Memo(), event_queue=asyncio.Queue(),
                resource=resource, raw_event=raw_event, **kw)
        finally:
            mine = [l for l in labels[started:] if len(l) > 2 and l[1] == k and l[2] == u]
            names = [l[0] for l in mine]
            cancelled = sys.exc_info()[0] is asyncio.CancelledError
            # for the oracle: the cycle is over; `skipped` = it never reached the indexing (error throttler)
            obslog.append(("cycle-skipped" if task not in entered else "cycle-ended", k, u))
            if "index" not in names and "indexFail" not in names and not cancelled:
                # the cycle of a worker WITHOUT an own toggle ended without index_resource returning
                # (it raised and the throttler swallowed it, or the throttler skipped the cycle)
                labels.append(["indexFail", k, u, gate.snap()])
            if "index" not in names and not cancelled:
                idle.add((k, u))
            if ("pass" in names or "skip" in names) and "handle" not in names and not cancelled:
                labels.append(["handle", k, u, gate.snap()])   # process_resource_causes ran (no handler matched/left)
                names.append("handle")
            if "handle" in names and not cancelled:
                labels.append(["finish", k, u, gate.snap()])
                idle.add((k, u))
            cur_obj.pop(task, None)
            ungated.discard(task)

    indexing.index_resource = index_resource_logged       # processing calls `indexing.index_resource`
    processing.process_resource_causes = causes_logged    # looked up as a module global by process_resource_event
    queueing.worker = worker_logged
    queueing.watcher = watcher_logged
    watching.infinite_watch = scripted_watch
    ensemble = None
    try:
        paused = aiotoggles.ToggleSet(any)
        ensemble = orchestration.Ensemble(
            operator_indexed=gate, operator_paused=paused,
            peering_missing=await paused.make_toggle(name="peering CRD is missing"))
        box["ensemble"] = ensemble
        identity = peering.Identity("verif-c17")

        async def revise() -> None:
            # one iteration of the real orchestrator (terminate_redundancies, spawn_missing_peerings, spawn_missing_watchers)
            await orchestration.adjust_tasks(processor=processor, insights=insights, settings=settings,
                                             identity=identity, ensemble=ensemble)

        insights.watched_resources.update(resources[r["name"]] for r in case["resources"])
        insights.indexed_resources.update(resources[r["name"]] for r in case["resources"] if r["indexed"])
        if namespaced:
            await revise()                                  # resources are known, namespaces not yet: an EMPTY batch
        insights.namespaces.update(case["namespaces"])
        await revise()                                      # the start-up batch proper
        t0 = 0.0
        for rv in case["revisions"]:
            await asyncio.sleep(max(0.0, rv["delay"] - t0))
            t0 = rv["delay"]
            if "add_resource" in rv:
                r = rv["add_resource"]
                insights.watched_resources.add(resources[r["name"]])
                if r["indexed"]:
                    insights.indexed_resources.add(resources[r["name"]])
            if "add_namespace" in rv:
                insights.namespaces.add(rv["add_namespace"])
            if "drop_namespace" in rv:
                insights.namespaces.discard(rv["drop_namespace"])
            await revise()
        horizon = 2.0 + max([0.0] + [sum(i["delay"] for i in its) for its in case["streams"].values()]) \
            + sum(case["index_delay"].values()) + sum(case["toggle_delay"]) \
            + 12 * (case.get("handler_delay") or 0) + 2 * case["idle_timeout"] + 12 * (case.get("obj_toggle_delay") or 0)
        if case.get("stop_at") is not None:
            # the operator exits in the middle of the start-up: all watchers are cancelled at once (as the orchestrator
            # does), each depletes and closes its workers in its `finally:` — nothing may pass the gate on the way out
            horizon = max(0.0, case["stop_at"] - t0)
        await asyncio.sleep(horizon)
        crashed = [repr(t.exception()) for t in ensemble.watcher_tasks.values()
                   if t.done() and not t.cancelled() and t.exception() is not None
                   and not isinstance(t.exception(), errors.APINotFoundError)]
    finally:
        state["closing"] = True
        tasks = list(ensemble.watcher_tasks.values()) if ensemble is not None else []
        for t in tasks:
            t.cancel()
        if tasks:
            await asyncio.gather(*tasks, return_exceptions=True)
        indexing.index_resource = real_index_resource
        processing.process_resource_causes = real_causes
        queueing.worker = real_worker
        queueing.watcher = real_watcher
        watching.infinite_watch = real_infinite_watch
    return {"labels": labels, "obs": [list(o) for o in obslog], "crashed": crashed, "final": gate.snap()}


def oracle_gate(case: dict, obs: dict) -> list[tuple[str, dict, dict]]:
    """The property, strictly: no handler starts while an indexed kind that the operator is already
    watching has not delivered LISTED, or an object of such a kind's initial listing has not been
    through its index function. Reads the stream log, the index-function log, the watcher-spawn log and
    the handler log only. Start-up kinds = the watchers of the resources/namespaces present at the start."""
    fails = []
    indexed_res = {r["name"] for r in case["resources"] if r["indexed"]} | \
                  {rv["add_resource"]["name"] for rv in case["revisions"] if rv.get("add_resource", {}).get("indexed")}
    startup = {_wname(r["name"], ns) for r in case["resources"] for ns in case["namespaces"]}
    # indexed kinds to be awaited: the start-up kinds from the very beginning (also before their watcher exists:
    # that is what the orchestration blocker is for), the others once their watcher has been spawned
    known: set[str] = {w for w in startup if w.split("@")[0] in indexed_res}
    listed: set[str] = set()
    initial: set[tuple[str, str]] = set()
    indexed_once: set[tuple[str, str]] = set()
    for n, o in enumerate(obs["obs"]):
        if o[0] == "spawned":
            if o[1].split("@")[0] in indexed_res:
                known.add(o[1])
        elif o[0] == "yield":
            if o[1] in known and o[1] not in listed and o[3] is None:
                initial.add((o[1], o[2]))
            if o[3] == "DELETED":
                indexed_once.add((o[1], o[2]))      # the object is gone: nothing of it is left to be indexed
        elif o[0] == "listed-yield":
            listed.add(o[1])
        elif o[0] in ("index-end", "index-returned", "index-raised", "cycle-skipped", "cycle-ended"):
            # the object has been through the indexing once: its index function ended; or index_resource returned
            # without calling it / raised (a failed filter: the attempt counts, kopf 58a504d); or the whole cycle was
            # skipped by the error throttler. NOT: its toggle was dropped (that is the mechanism, not the fact)
            indexed_once.add((o[1], o[2]))
        elif o[0] == "handler-start":
            missing_kinds = sorted(known - listed)
            missing_objs = sorted(initial - indexed_once)
            if missing_kinds or missing_objs:
                late_only = all(k not in startup for k in missing_kinds) and all(x[0] not in startup for x in missing_objs)
                sig = F4_SIG if late_only else \
                    {"site": "operator_indexed gate", "shape": "handler before the initial index is complete"}
                fails.append((f"handler for {o[1]}/{o[2]} started (observation #{n}) while kinds {missing_kinds} were not listed "
                              f"and listed objects {missing_objs} were not indexed yet",
                              {"observation": n, "not_listed": missing_kinds, "not_indexed": missing_objs}, sig))
                if not late_only:
                    break
    if obs["crashed"]:
        fails.append((f"watcher task crashed: {obs['crashed'][:2]}", {}, {"site": "queueing.watcher", "shape": "crash"}))
    # NB: whether the gate ever opens is liveness, not part of C17 (pure safety): it is only counted
    # (`gate.opened`), never reported.
    # deduplicate the by-design reports of one run
    seen, out = set(), []
    for f in fails:
        key = canon(f[2])
        if key == canon(F4_SIG) and key in seen:
            continue
        seen.add(key)
        out.append(f)
    return out


# =================================================================================================
# part L — the PRODUCER of Bookmark.LISTED: the real watching.infinite_watch / streaming_block /
# continuous_watch / watch_objs and the real fetching.list_objs over a scripted API (api.get, api.stream),
# with a real ToggleSet(any) as `operator_paused` turned on and off while LIST requests are in flight
# =================================================================================================
LISTING_SIG = {"site": "watch-stream (the producer of LISTED)", "shape": "LISTED yielded without an answered LIST request and all its items before it"}


def gen_listing_case(rng: random.Random) -> dict:
    """One watch-stream of one kind: a script of LIST requests (latency; answered with 0-3 items, a connection error,
    429 or 410), a script of watch requests (events, then the server closes / a 410 ERROR event / silence until the client
    closes), a consumer that takes its time between the items, and a pause timeline aimed at the in-flight spans."""
    lists = []
    for _ in range(rng.choice([2, 3, 4, 6])):
        out = rng.choice(["items", "items", "items", "items", "conn", "429", "410"])
        lists.append({"delay": rng.choice([0, 1 / 64, 1 / 4, 1 / 4, 1 / 2, 1.0, 2.0]),
                      "outcome": out, "n": rng.choice([0, 0, 1, 2, 3]) if out == "items" else 0})
    lists.append({"delay": rng.choice([0, 1 / 4]), "outcome": "items", "n": rng.choice([0, 1, 2])})   # repeated for ever
    watches = []
    for _ in range(rng.choice([1, 2, 3])):
        watches.append({"events": rng.choice([0, 0, 1, 2]), "gap": rng.choice([1 / 64, 1 / 4, 1.0]),
                        "end": rng.choice(["close", "gone", "hang", "hang"])})
    watches.append({"events": 0, "gap": 1 / 4, "end": "hang"})
    pauses, t = [], 0.0
    if rng.random() < 0.1:
        pauses.append([0.0, True, 0])
        t = rng.choice([1 / 4, 1.0])
        pauses.append([t, False, 0])
    for _ in range(rng.choice([0, 1, 1, 2, 3])):
        if rng.random() < 0.6:      # into the first still-unaimed LIST's flight
            l = rng.choice(lists[:3])
            t += rng.choice([1 / 4, 1 / 2, 3 / 4]) * max(l["delay"], 1 / 16)
        else:
            t += rng.choice([0, 1 / 64, 1 / 8, 1 / 4, 1.0, 2.5])
        t = round(t * 64) / 64
        dur = rng.choice([1 / 4, 1 / 2, 1.0, 3.0])
        tog = rng.choice([0, 0, 1])         # two pausing toggles (peering + anything else): paused = any of them
        pauses.append([t, True, tog])
        pauses.append([t + dur, False, tog])
        t += dur + rng.choice([0, 1 / 64, 1 / 4])
    return {"kind": "listing", "lists": lists, "watches": watches, "pauses": pauses,
            "consumer_delay": rng.choice([0, 0, 1 / 64, 1 / 4]), "backoff": rng.choice([1 / 8, 1 / 8, 1 / 2]),
            "end": t + 6.0 + sum(l["delay"] for l in lists)}


async def run_listing_case(case: dict) -> dict:
    import aiohttp
    from kopf._cogs.aiokits import aiotoggles
    from kopf._cogs.clients import api, errors, watching
    from kopf._cogs.configs import configuration
    from kopf._cogs.structs import references
    loop = asyncio.get_running_loop()
    t0 = loop.time()
    labels: list[list] = []         # for the Lean LTS
    log: list[list] = []            # for the oracle: server side (list-*) and consumer side (got-*) only
    res = references.Resource(GROUP, VERSION, "kexa", kind="Kexa", singular="kexa", namespaced=True, preferred=True,
                              verbs=frozenset({"list", "watch", "patch"}))
    paused = aiotoggles.ToggleSet(any)
    toggles = [await paused.make_toggle(False, name="peering"), await paused.make_toggle(False, name="button")]
    rnd = {"phase": "blocked"}
    n_list, n_watch, uid = [0], [0], [0]

    def now() -> float:
        return loop.time() - t0

    def item() -> dict:
        uid[0] += 1
        return {"metadata": {"name": f"o{uid[0]}", "namespace": "ns", "uid": f"u{uid[0]}", "resourceVersion": str(100 + uid[0])}}

    async def fake_get(url: str, **_: Any) -> Any:
        sc = case["lists"][min(n_list[0], len(case["lists"]) - 1)]
        n_list[0] += 1
        log.append(["list-start", now(), paused.is_on()])
        try:
            if sc["delay"]:
                await asyncio.sleep(sc["delay"])
        except asyncio.CancelledError:
            log.append(["list-abandoned", now()])
            labels.append(["abandon"])
            rnd["phase"] = "blocked"
            raise
        if sc["outcome"] == "items":
            log.append(["list-answered", now(), sc["n"]])
            labels.append(["answer", sc["n"]])
            rnd["phase"] = "yielding"
            return {"kind": "KexaList", "apiVersion": f"{GROUP}/{VERSION}", "metadata": {"resourceVersion": "100"},
                    "items": [item() for _ in range(sc["n"])]}
        log.append(["list-failed", now(), sc["outcome"]])
        labels.append(["fail"])
        rnd["phase"] = "blocked"
        if sc["outcome"] == "conn":
            raise aiohttp.ClientConnectionError("fake")
        if sc["outcome"] == "429":
            raise errors.APITooManyRequestsError({"code": 429, "message": "slow down"}, status=429, headers={})
        raise errors.APIClientError({"code": 410, "message": "gone"}, status=410, headers={})

    async def fake_stream(url: str, *, stopper: Any = None, **_: Any) -> Any:
        sc = case["watches"][min(n_watch[0], len(case["watches"]) - 1)]
        n_watch[0] += 1
        for _ in range(sc["events"]):
            await asyncio.wait({stopper}, timeout=sc["gap"])
            if stopper.done():
                return
            yield {"type": "MODIFIED", "object": item()}
        if sc["end"] == "gone":
            yield {"type": "ERROR", "object": {"code": 410, "message": "too old"}}
        elif sc["end"] == "hang":
            await asyncio.wait({stopper})
        else:
            await asyncio.wait({stopper}, timeout=sc["gap"])

    real_block = watching.streaming_block

    import contextlib

    @contextlib.asynccontextmanager
    async def block(**kw: Any) -> Any:
        async with real_block(**kw) as waiter:
            labels.append(["begin"])
            rnd["phase"] = "listing"
            try:
                yield waiter
            finally:
                if rnd["phase"] == "listing":       # the LIST task was cancelled before it reached the API
                    labels.append(["abandon"])
                elif rnd["phase"] == "watching":
                    labels.append(["endWatch"])
                rnd["phase"] = "blocked"

    settings = configuration.OperatorSettings()
    settings.watching.reconnect_backoff = case["backoff"]
    settings.watching.server_timeout = None
    settings.watching.client_timeout = None
    settings.watching.inactivity_timeout = 4096.0
    crashed: list[str] = []

    async def consumer() -> None:
        try:
            async for ev in watching.infinite_watch(settings=settings, resource=res, namespace="ns", operator_paused=paused):
                if ev is watching.Bookmark.LISTED:
                    log.append(["got-listed", now()])
                    labels.append(["yieldListed"])
                    rnd["phase"] = "watching"
                elif isinstance(ev, dict) and ev.get("type") is None:
                    log.append(["got-item", now()])
                    labels.append(["yieldItem"])
                else:
                    log.append(["got-event", now()])
                    labels.append(["event"])
                if case["consumer_delay"]:
                    await asyncio.sleep(case["consumer_delay"])
        except asyncio.CancelledError:
            raise
        except BaseException as e:  # noqa: BLE001
            crashed.append(repr(e))

    async def pauser() -> None:
        for t, on, tog in sorted(case["pauses"], key=lambda x: x[0]):
            d = t0 + t - loop.time()
            if d > 0:
                await asyncio.sleep(d)
            before = paused.is_on()
            await toggles[tog].turn_to(on)
            after = paused.is_on()
            if before != after:
                labels.append(["pause" if after else "unpause"])
                log.append(["paused" if after else "unpaused", now()])

    saved = (api.get, api.stream, watching.streaming_block)
    api.get, api.stream, watching.streaming_block = fake_get, fake_stream, block     # type: ignore[assignment]
    try:
        ptask = asyncio.create_task(pauser())
        await asyncio.sleep(0)          # a pause at t=0 is in force before the stream is asked for anything
        ctask = asyncio.create_task(consumer())
        await asyncio.sleep(case["end"])
        n_done = len(labels)
        for tk in (ctask, ptask):
            tk.cancel()
        await asyncio.wait({ctask, ptask})
    finally:
        api.get, api.stream, watching.streaming_block = saved     # type: ignore[assignment]
    return {"labels": labels[:n_done], "log": log, "crashed": crashed}


def oracle_listing(case: dict, obs: dict) -> list[tuple[str, dict, dict]]:
    """From the property text ('listed … once') over the server's and the consumer's own observations: whenever the
    stream hands LISTED to its consumer, the server has ANSWERED a LIST request since the previous LISTED / since the
    latest LIST request began, and the consumer has received exactly that answer's items in between."""
    fails: list[tuple[str, dict, dict]] = []
    answered: int | None = None
    got = 0
    for n, l in enumerate(obs["log"]):
        if l[0] == "list-start":
            answered, got = None, 0
            # (a LIST request that reaches the server while paused is NOT judged: on unchanged kopf a pause that comes in the
            # very instant in which streaming_block has let the round through meets the request on its way out; it is given
            # up at once, in the same instant. The property says nothing about it; the Lean tie checks that streaming_block
            # itself never lets a round begin while paused: `startedPaused`.)
        elif l[0] == "list-answered":
            answered, got = l[2], 0
        elif l[0] == "got-item":
            got += 1
        elif l[0] == "got-listed":
            if answered is None or got != answered:
                fails.append((f"the watch-stream yielded LISTED at t={l[1]} (log entry #{n}) "
                              + ("while no LIST request had been answered in this round (the latest one was abandoned or failed): "
                                 "the kind was not listed" if answered is None else
                                 f"after {got} of the {answered} items of the LIST answer"),
                              {"entry": n, "answered": answered, "items_before": got}, LISTING_SIG))
                break
            answered = None
    if obs["crashed"]:
        fails.append((f"the watch-stream died: {obs['crashed'][:1]}", {}, {"site": "watch-stream", "shape": "crash"}))
    return fails


def run_listing_cases(cases: list[dict]) -> list[dict]:
    out = []
    for case in cases:
        async def main(case: dict = case) -> dict:
            return await run_listing_case(case)
        obs = _sim(main, wall=120.0)
        out.append({"case": case, "obs": obs, "fails": oracle_listing(case, obs)})
    return out


def summarise_listing(results: list[dict], source: str, sm: dict | None = None, with_lean: bool = True) -> dict:
    sm = sm if sm is not None else _new_summary()
    reqs = []
    for r in results:
        case, obs = r["case"], r["obs"]
        names = [l[0] for l in obs["labels"]]
        sm["cases"].append(("l" + _h(canon(obs["labels"])), "abandon" in names or "fail" in names))
        for nme in names:
            _count(sm, "listing.label", nme)
        _count(sm, "listing.rounds_abandoned_by_a_pause", names.count("abandon"))
        _count(sm, "listing.listed_delivered", names.count("yieldListed"))
        _count(sm, "listing.answer_and_pause_at_the_same_moment",
               any(a[0] == "list-answered" and any(b[0] == "paused" and b[1] == a[1] for b in obs["log"]) for a in obs["log"]))
        _count(sm, "listing.source", source)
        sm["traces"] += 1
        if "abandon" in names and len(sm["samples"]) < 1:
            sm["samples"].append({"listing": obs["labels"][:24]})
        for what, detail, sig in r["fails"]:
            if len(sm["oracle"]) < 12:
                sm["oracle"].append((what, {"case": case, "detail": detail, "log": obs["log"][:80]}, sig))
        reqs.append(["C17.listing", obs["labels"]])
    if with_lean and reqs:
        try:
            outs = _ask(reqs)
        except leanio.LeanError as e:
            sm["lean_error"] = (str(e), e.log[-2000:])
            return sm
        for r, out in zip(results, outs):
            res = out[1] if out and out[0] == "ok" else out
            ok = isinstance(res, dict) and res.get("accepted") is True and res.get("startedPaused") is False
            if ok:      # what the model says the stream has yielded = what the consumer has received
                want = [("item" if l[0] == "got-item" else "event" if l[0] == "got-event" else "listed")
                        for l in r["obs"]["log"] if l[0].startswith("got-")]
                have = [(o if isinstance(o, str) else "listed") for o in res.get("out", [])]
                ok = want[:len(have)] == have and len(want) - len(have) <= 1
            sm["tie_comparisons"] += 1
            if not ok and len(sm["tie"]) < 10:
                at = res.get("at") if isinstance(res, dict) else None
                sm["tie"].append(("watch-stream trace is not accepted by the model of the LISTED producer",
                                  {"case": r["case"], "result": res,
                                   "around": r["obs"]["labels"][max(0, (at or 0) - 8):(at or 0) + 2] if at is not None else None}))
    return sm


def listing_shard(args: tuple) -> dict:
    seed, n, repo, with_lean = args
    _prepare(repo)
    rng = random.Random(f"C17-listing-{seed}")
    sm = _new_summary()
    cases = [gen_listing_case(rng) for _ in range(n)]
    summarise_listing(run_listing_cases(cases), "generated", sm, with_lean)
    return sm


# =================================================================================================
# part S — the gate end to end: a real operator against the fake API (harness/props/sim_c17.py)
# =================================================================================================
BOOT_HANDLERS = ["event", "create", "resume", "update", "daemon", "timer"]
BOOT_SIG = {"site": "start-up gate (whole operator)", "shape": "a handler started before the initial index was complete"}
BOOT_LISTED_SIG = {"site": "start-up gate (whole operator)", "shape": "a handler started before every indexed kind had a LIST request answered"}
BOOT_LIST_BEGINS = 3 / 64      # when the initial LIST requests of a peered start-up reach the fake server (measured; only aims the pauses)
BOOT_VIEW_SIG = {"site": "start-up gate (whole operator)", "shape": "a handler does not see an initially listed object in the index it was given"}


def gen_boot_case(rng: random.Random) -> dict:
    """2-3 kinds with objects that exist before the operator starts; at least one kind is indexed; the
    kinds carry every sort of handler the property names, in random subsets (also kinds WITHOUT an
    on-event handler, kinds with index functions only, kinds with daemons/timers only)."""
    n = rng.choice([2, 2, 3])
    kinds = []
    for i in range(n):
        hs = sorted(rng.sample(BOOT_HANDLERS, rng.choice([0, 1, 1, 2, 2, 3, 4])))
        kinds.append({"name": KINDS[i], "indexed": rng.random() < 0.6, "handlers": hs})
    if not any(k["indexed"] for k in kinds):
        rng.choice(kinds)["indexed"] = True
    if not any(k["handlers"] for k in kinds):
        rng.choice(kinds)["handlers"] = [rng.choice(BOOT_HANDLERS)]
    objects, index_delay = [], {}
    for k in kinds:
        for j in range(rng.choice([0, 1, 1, 2, 3])):
            nm = f"{k['name'][-1]}{j}"
            objects.append({"kind": k["name"], "name": nm, "v": rng.choice([0, 1, 2, 7, 9]),
                            "handled_before": rng.random() < 0.4})     # → resume handlers instead of creation handlers
            if k["indexed"]:
                index_delay[f"{k['name']}/{nm}"] = rng.choice(DELAYS)
    list_delay = {k["name"]: rng.choice([0, 0, 1 / 64, 1 / 4, 1 / 4, 1.0, 2.0]) for k in kinds}
    timeline = []
    for _ in range(rng.choice([0, 0, 1, 2, 3])):
        k = rng.choice(kinds)
        mine = [o for o in objects if o["kind"] == k["name"]]
        t = rng.choice([1 / 64, 1 / 4, 1 / 2, 1.0, 1.5, 2.5, 4.0])
        if mine and rng.random() < 0.6:
            o = rng.choice(mine)
            timeline.append([t, rng.choice(["edit", "edit", "delete"]), k["name"], o["name"], rng.choice([3, 4, 5])])
        else:
            timeline.append([t, "create", k["name"], f"{k['name'][-1]}n{len(timeline)}", rng.choice([3, 4, 5])])
    settings: dict[str, Any] = {"queueing.idle_timeout": rng.choice([5.0, 5.0, 0.25, 1 / 16]),
                                "watching.reconnect_backoff": 0.125}
    # -- the pause (half of the runs): the operator runs with the REAL peering (priority 0, a ClusterKopfPeering
    # object); a foreign record of a higher priority is written into it and removed again: before the start, before,
    # WHILE and after the initial LIST requests are in flight (the times are aimed at the in-flight spans of the slow
    # kinds; a LIST that is retried after 503s is in flight for longer). Nothing must be listed while paused; an
    # abandoned LIST is not a listing: the kind is listed (and its objects indexed) only after the un-pausing.
    peering = None
    list_errors: dict[str, int] = {}
    if rng.random() < 0.3:
        for k in kinds:
            if rng.random() < 0.5:
                list_errors[k["name"]] = rng.choice([1, 1, 2])
    pause_total = 0.0
    if rng.random() < 0.5:
        peering = {"paused_at_start": rng.random() < 0.15}
        if rng.random() < 0.7:      # a slow API server: the pause has something to fall into
            for k in kinds:
                if list_delay[k["name"]] < 1 / 4 and rng.random() < 0.6:
                    list_delay[k["name"]] = rng.choice([1 / 4, 1 / 2, 1.0, 2.0])
        t = 0.0
        if peering["paused_at_start"]:
            t = rng.choice([1 / 4, 1.0, 3.0])
            timeline.append([t, "resume", None, None, None])
            pause_total += t
        for _ in range(rng.choice([1, 1, 1, 2])):
            slow = [k["name"] for k in kinds if list_delay[k["name"]] >= 1 / 4 or list_errors.get(k["name"])]
            if slow and rng.random() < 0.75:
                kn = rng.choice(slow)
                span = list_delay[kn] * (1 + list_errors.get(kn, 0)) + 1.0 * list_errors.get(kn, 0)
                t += BOOT_LIST_BEGINS + rng.choice([1 / 4, 1 / 2, 3 / 4]) * span
            else:
                t += rng.choice([1 / 64, 1 / 8, 1 / 4, 1 / 2, 1.0, 2.5])
            t = round(t * 64) / 64
            dur = rng.choice([1 / 4, 1.0, 1.0, 3.0])
            timeline.append([t, "pause", None, None, None])
            timeline.append([t + dur, "resume", None, None, None])
            pause_total += dur
            t += dur
    n_rounds = 1 + (len([x for x in timeline if x[1] == "pause"]) if peering else 0) + (1 if peering and peering["paused_at_start"] else 0)
    end = (4.0 + (max(list_delay.values()) + 0.25) * (n_rounds + max(list_errors.values(), default=0))
           + 4.0 * max(list_errors.values(), default=0) + sum(index_delay.values()) + pause_total
           + max([x[0] for x in timeline], default=0.0))
    return {"kind": "boot", "runner": "harness.props.sim_c17:run_boot", "kinds": kinds, "objects": objects,
            "list_delay": list_delay, "list_errors": list_errors, "peering": peering,
            "index_delay": index_delay, "timeline": sorted(timeline, key=lambda x: x[0]),
            "handler_delay": rng.choice([0, 0, 1 / 64, 1 / 4]), "timer_initial_delay": rng.choice([0, 0, 1 / 4]),
            "settings": settings, "end": end}


def oracle_boot(case: dict, tr: dict) -> list[tuple[str, dict, dict]]:
    """The property, over what the handler functions themselves logged: when a change handler, a daemon,
    a timer (or an on-event handler) of ANY kind starts, every object of every indexed kind that existed
    when the operator started — and has not been deleted since — has been through its index function,
    and the handler finds it in the index it was given (with its value, if nobody edited it)."""
    fails: list[tuple[str, dict, dict]] = []
    indexed = {k["name"] for k in case["kinds"] if k["indexed"]}
    initial = [(o["kind"], o["name"], o["v"]) for o in case["objects"] if o["kind"] in indexed]
    touched = {(x[2], x[3]) for x in case.get("timeline", []) if x[1] in ("edit", "delete")}
    deleted_at = {(x[2], x[3]): x[0] for x in reversed(case.get("timeline", [])) if x[1] == "delete"}
    t0 = next((l[1] for l in tr["log"] if l[0] == "operator-started"), 0.0)
    done: set[tuple[str, str]] = set()
    answered: set[str] = set()        # kinds with a LIST request answered 200 by the server (abandoned / failed ones do not count)
    for n, l in enumerate(tr["log"]):
        if l[0] == "index-end":
            done.add((l[1], l[2]))
        elif l[0] == "list-end":
            answered.add(l[1])
        elif l[0] == "start":
            _, htype, kind, name, t, seen = l
            unlisted = sorted(indexed - answered)
            if unlisted:
                fails.append((f"the {htype} handler of {kind}/{name} started at t={t} (log entry #{n}) while no LIST request of the "
                              f"indexed kinds {unlisted} had been answered yet: these kinds were never listed",
                              {"entry": n, "handler": htype, "never_listed": unlisted}, BOOT_LISTED_SIG))
                break
            alive = [(k, nm, v) for (k, nm, v) in initial if not ((k, nm) in deleted_at and t0 + deleted_at[(k, nm)] <= t)]
            missing = sorted((k, nm) for (k, nm, _v) in alive if (k, nm) not in done)
            if missing:
                fails.append((f"the {htype} handler of {kind}/{name} started at t={t} (log entry #{n}) while the initially "
                              f"listed objects {missing} had not been through their index functions yet",
                              {"entry": n, "handler": htype, "not_indexed": missing}, BOOT_SIG))
                break
            unseen = []
            for (k, nm, v) in alive:
                ix = (seen or {}).get(f"idx_{k}")
                if ix is None or nm not in ix or ((k, nm) not in touched and ix[nm] != [v]):
                    unseen.append([k, nm, None if ix is None else ix.get(nm, "absent")])
            if unseen:
                fails.append((f"the {htype} handler of {kind}/{name} started at t={t} (log entry #{n}) and does not find the "
                              f"initially listed objects {unseen} in the indices of its kwargs", {"entry": n, "handler": htype,
                                                                                               "unseen": unseen}, BOOT_VIEW_SIG))
                break
    return fails


def run_boot_cases(cases: list[dict], wall: float = 60.0, batch: int = 6) -> list[dict]:
    from harness.sim import pool
    out = []
    for case, res in zip(cases, pool.run_many(cases, wall=wall, batch=batch)):
        tr = res.get("trace")
        if tr is None or tr.get("sim_error"):
            out.append({"case": case, "obs": None, "fails": [], "broken": res if tr is None else {"sim_error": tr["sim_error"]}})
            continue
        fails = oracle_boot(case, tr)
        if tr.get("errors"):
            fails.append((f"the operator did not run/stop cleanly: {tr['errors'][:2]}", {}, {"site": "operator", "shape": "crash"}))
        out.append({"case": case, "obs": tr, "fails": fails})
    return out


def summarise_boot(results: list[dict], source: str, sm: dict | None = None) -> dict:
    sm = sm if sm is not None else _new_summary()
    for r in results:
        case, tr = r["case"], r["obs"]
        if tr is None:
            if len(sm["tie"]) < 5:
                sm["tie"].append(("whole-operator start-up run did not finish (stall / harness error)",
                                  {"case": case, "result": {k: str(v)[-1500:] for k, v in r["broken"].items()}}))
            continue
        starts = [l for l in tr["log"] if l[0] == "start"]
        ends = [n for n, l in enumerate(tr["log"]) if l[0] == "index-end"]
        first_start = next((n for n, l in enumerate(tr["log"]) if l[0] == "start"), None)
        indexed = {k["name"] for k in case["kinds"] if k["indexed"]}
        n_init = sum(1 for o in case["objects"] if o["kind"] in indexed)
        key = canon([[k["indexed"], k["handlers"]] for k in case["kinds"]] + [l[:3] for l in tr["log"] if l[0] in ("start", "index-start", "index-end")][:60])
        sm["cases"].append(("b" + _h(key), bool(starts) and n_init > 0))
        for l in starts:
            _count(sm, "boot.handler_started", l[1])
        _count(sm, "boot.initially_listed_indexed_objects", n_init)
        _count(sm, "boot.kinds", len(case["kinds"]))
        _count(sm, "boot.kind_without_on_event_but_other_handlers",
               any(k["handlers"] and "event" not in k["handlers"] for k in case["kinds"]))
        # the gate was load-bearing: some handler's own object was delivered before the last initial object was indexed
        slowest = max([case["list_delay"][k] for k in indexed] + [0])
        _count(sm, "boot.gate_load_bearing", any(case["list_delay"][k["name"]] < slowest and k["handlers"]
                                                 and any(o["kind"] == k["name"] for o in case["objects"]) for k in case["kinds"]))
        _count(sm, "boot.handlers_ran", bool(starts))
        _count(sm, "boot.peered", bool(case.get("peering")))
        _count(sm, "boot.initial_list_of_indexed_kind_abandoned_by_pause",
               any(l[0] == "list-abandoned" and l[1] in indexed and not any(m[0] == "list-end" and m[1] == l[1] for m in tr["log"][:n])
                   for n, l in enumerate(tr["log"])))
        _count(sm, "boot.list_answered_503_first", sum(1 for l in tr["log"] if l[0] == "list-error"))
        _count(sm, "boot.source", source)
        sm["traces"] += 1
        if starts and n_init and len(sm["samples"]) < 2:
            sm["samples"].append({"boot": [[k["name"], k["indexed"], k["handlers"]] for k in case["kinds"]],
                                  "log": [l[:5] for l in tr["log"][:14]]})
        for what, detail, sig in r["fails"]:
            if len(sm["oracle"]) < 12:
                sm["oracle"].append((what, {"case": case, "detail": detail, "log": [l[:5] for l in tr["log"]][:80]}, sig))
    return sm


def boot_shard(args: tuple) -> dict:
    seed, n, repo, _with_lean = args
    _prepare(repo)
    rng = random.Random(f"C17-boot-{seed}")
    sm = _new_summary()
    cases = [gen_boot_case(rng) for _ in range(n)]
    summarise_boot(run_boot_cases(cases), "generated", sm)
    return sm


# =================================================================================================
# shards (also used through multiprocessing): generate, run the real code, oracle, Lean comparison
# =================================================================================================
import hashlib


def _sim(coro_fn: Any, wall: float = 120.0) -> Any:
    from harness.sim import simloop
    return simloop.run_sim(coro_fn, wall_limit=wall)


def _prepare(repo: str) -> None:
    _quiet_logging()
    if repo not in sys.path:
        sys.path.insert(0, repo)


def run_index_cases(cases: list[dict]) -> list[dict]:
    out: list[dict] = []

    async def main() -> None:
        for case in cases:
            obs = await run_index_case(case)
            out.append({"case": case, "obs": obs, "fails": oracle_index(case, obs),
                        "cls": classify_index_case(case, obs)})
    _sim(main, wall=900.0)
    return out


def run_gate_cases(cases: list[dict]) -> list[dict]:
    out = []
    for case in cases:
        async def main(case: dict = case) -> dict:
            return await run_gate_case(case)
        obs = _sim(main, wall=120.0)
        out.append({"case": case, "obs": obs, "fails": oracle_gate(case, obs)})
    return out


def _ask(reqs: list) -> list:
    """Driver call (also from pool workers); one retry after (re)building the driver modules."""
    drv = leanio.Driver([ID])            # the property's own driver: Kopf.Drv.C17 + Kopf.Drv.Main only
    try:
        return drv.ask(reqs)
    except leanio.LeanError:
        leanio.lake_build(drv.build_targets())
        return drv.ask(reqs)


def _new_summary() -> dict:
    return {"cases": [], "hist": {}, "oracle": [], "tie": [], "tie_comparisons": 0, "samples": [], "traces": 0,
            "lean_error": None}


def _count(sm: dict, group: str, tag: Any, n: int = 1) -> None:
    g = sm["hist"].setdefault(group, {})
    g[str(tag)] = g.get(str(tag), 0) + n


def _h(key: str) -> str:
    return hashlib.md5(key.encode()).hexdigest()


def summarise_index(results: list[dict], source: str, sm: dict | None = None, with_lean: bool = True) -> dict:
    sm = sm if sm is not None else _new_summary()
    reqs = []
    tied: list[dict] = []
    for r in results:
        case, obs = r["case"], r["obs"]
        key, nontrivial, tags = r["cls"]
        sm["cases"].append(("i" + _h(key), nontrivial))
        if nontrivial and len(sm["samples"]) < 3:
            sm["samples"].append({"indexers": case["indexers"], "events": len(case["events"]),
                                  "last_view": obs["snaps"][-1]["ix"] if obs["snaps"] else None})
        for t, c in tags.items():
            _count(sm, "index.rule", t, c)
        _count(sm, "index.events", len(case["events"]))
        _count(sm, "index.objects", len({ident(e) for e in case["events"]}))
        _count(sm, "index.source", source)
        for what, detail, sig in r["fails"]:
            known = sig in (F2_SIG, F6_SIG)
            if sum(1 for f in sm["oracle"] if (f[2] in (F2_SIG, F6_SIG)) == known) < 12:
                sm["oracle"].append((what, {"case": case, "detail": detail, "impl": obs["snaps"]}, sig))
        _count(sm, "index.uidless_objects", len(_uidless(case)))
        _count(sm, "index.events_with_foreign_body_parts", sum(1 for e in case["events"] if e.get("extra")))
        _count(sm, "index.uidless_recreated", sum(1 for e in case["events"] if e["uid"] is None and e["type"] == "DELETED"))
        tied.append(r)
        reqs.append(model_request(case, obs.get("memo_unpacked", True)))
    if with_lean and reqs:
        try:
            outs = _ask(reqs)
        except leanio.LeanError as e:
            sm["lean_error"] = (str(e), e.log[-2000:])
            return sm
        for r, out in zip(tied, outs):
            model = out[1] if out and out[0] == "ok" else out
            impl: Any = r["obs"]["snaps"]
            if any(x is not None for x in r["obs"]["errors"]):
                impl = ["err", "key-error" if "KeyError" in r["obs"]["errors"] else "error"]
            sm["tie_comparisons"] += 1
            if canon(impl) != canon(model) and len(sm["tie"]) < 10:
                first = next((i for i, (a, b) in enumerate(zip(impl, model)) if canon(a) != canon(b)), None) \
                    if isinstance(impl, list) and isinstance(model, list) else None
                sm["tie"].append(("index views / retry memory: implementation and model differ",
                                  {"case": r["case"], "first_diverging_event": first,
                                   "impl": impl[first] if first is not None else impl,
                                   "model": model[first] if first is not None else model}))
    return sm


def summarise_gate(results: list[dict], source: str, sm: dict | None = None, with_lean: bool = True) -> dict:
    sm = sm if sm is not None else _new_summary()
    reqs = []
    for r in results:
        case, obs = r["case"], r["obs"]
        names = [l[0] for l in obs["labels"]]
        key = canon([l[:-1] for l in obs["labels"]])
        handled = names.count("handle")
        under_blocker = _arrival_under_blocker(names)
        reclosed = _reclosed(obs["labels"])
        sm["cases"].append(("g" + _h(key), handled > 0 and "pass" in names))
        if (under_blocker or reclosed) and len(sm["samples"]) < 3:
            sm["samples"].append({"mode": case["mode"], "labels": [l[:-1] for l in obs["labels"][:30]]})
        for nme in names:
            _count(sm, "gate.label", nme)
        _count(sm, "gate.mode", case["mode"])
        _count(sm, "gate.watchers", len(case["streams"]))
        _count(sm, "gate.empty_first_batch", bool(obs["labels"]) and obs["labels"][0][0] == "spawnBegin" and obs["labels"][0][1] == [])
        _count(sm, "gate.watcher_died", "die" in names)
        _count(sm, "gate.opened", handled > 0)
        _count(sm, "gate.arrival_while_blocker_held", under_blocker)
        _count(sm, "gate.closed_again_after_opening", reclosed)
        _count(sm, "gate.later_revisions", len(case["revisions"]))
        _count(sm, "gate.failed_indexing_cycle", "indexFail" in names)
        _count(sm, "gate.worker_limit", case.get("worker_limit"))
        _count(sm, "gate.stopped_during_startup", case.get("stop_at") is not None)
        if case.get("worker_limit") is not None:
            _count(sm, "gate.opened_under_worker_limit", handled > 0)
        _count(sm, "gate.source", source)
        sm["traces"] += 1
        for what, detail, sig in r["fails"]:
            known = sig == F4_SIG
            if sum(1 for f in sm["oracle"] if (f[2] == F4_SIG) == known) < 12:
                sm["oracle"].append((what, {"case": case, "detail": detail, "labels": obs["labels"]}, sig))
        reqs.append(["C17.gate", obs["labels"]])
    if with_lean and reqs:
        try:
            outs = _ask(reqs)
        except leanio.LeanError as e:
            sm["lean_error"] = (str(e), e.log[-2000:])
            return sm
        for r, out in zip(results, outs):
            res = out[1] if out and out[0] == "ok" else out
            ok = isinstance(res, dict) and res.get("accepted") is True and all(res.get("readyAtHandle", []))
            sm["tie_comparisons"] += 1
            if not ok and len(sm["tie"]) < 10:
                at = res.get("at") if isinstance(res, dict) else None
                sm["tie"].append(("start-up trace is not accepted by the gate model",
                                  {"case": r["case"], "result": res,
                                   "around": r["obs"]["labels"][max(0, (at or 0) - 8):(at or 0) + 2] if at is not None else None}))
    return sm


def _arrival_under_blocker(names: list) -> bool:
    inside = False
    for n in names:
        if n == "spawnBegin":
            inside = True
        elif n == "spawnEnd":
            inside = False
        elif n == "arrive" and inside:
            return True
    return False


def _reclosed(labels: list) -> bool:
    """some waiter has passed and later the set is off again (a late toggle / a later batch)"""
    seen_on = False
    for l in labels:
        snap = l[-1]
        if isinstance(snap, dict):
            if l[0] in ("pass", "skip"):
                seen_on = True
            elif seen_on and not snap["on"]:
                return True
    return False


def index_shard(args: tuple) -> dict:
    seed, n, repo, with_lean = args
    _prepare(repo)
    rng = random.Random(f"C17-index-{seed}")
    sm = _new_summary()
    step = 2500
    for i in range(0, n, step):           # bounded memory per batch
        cases = [gen_index_case(rng) for _ in range(min(step, n - i))]
        summarise_index(run_index_cases(cases), "generated", sm, with_lean)
    return sm


def gate_shard(args: tuple) -> dict:
    seed, n, repo, with_lean = args
    _prepare(repo)
    rng = random.Random(f"C17-gate-{seed}")
    sm = _new_summary()
    step = 200
    for i in range(0, n, step):
        cases = [gen_gate_case(rng) for _ in range(min(step, n - i))]
        summarise_gate(run_gate_cases(cases), "generated", sm, with_lean)
    return sm


def _map(fn: Any, jobs: list[tuple], parallel: bool) -> list[dict]:
    jobs = [j for j in jobs if j[1] > 0]
    if not parallel or len(jobs) <= 1:
        return [fn(j) for j in jobs]
    mp = multiprocessing.get_context("fork")
    with mp.Pool(min(16, len(jobs), os.cpu_count() or 4)) as pool:
        return pool.map(fn, jobs)


# =================================================================================================
# the check
# =================================================================================================
def _merge(ctx: Ctx, sm: dict) -> None:
    for key, nontrivial in sm["cases"]:
        ctx.case(key=key, nontrivial=nontrivial)
    for s in sm["samples"]:
        if len(ctx.samples) < 6:
            ctx.samples.append(s)
    for g, d in sm["hist"].items():
        for t, c in d.items():
            ctx.count(g, t, c)
    ctx.traces += sm["traces"]
    ctx.tie_comparisons += sm["tie_comparisons"]
    for what, replay_, sig in sm["oracle"]:
        ctx.oracle_fail(what, replay_, sig)
    for what, replay_ in sm["tie"]:
        if sum(1 for f in ctx.failures if f.kind == "tie") < 50:
            ctx.tie_fail(what, replay_)
    if sm["lean_error"]:
        ctx.tie_fail(f"Lean driver failed: {sm['lean_error'][0]}", {"log": sm["lean_error"][1]})


def run(ctx: Ctx) -> None:
    _prepare(str(ctx.repo))
    thorough = ctx.tier == "thorough"
    # ---- corpus first
    icorp, gcorp, bcorp, lcorp = [], [], [], []
    for _name, data in load_corpus(ID):
        {"index": icorp, "gate": gcorp, "boot": bcorp, "listing": lcorp}[data["case"]["kind"]].append(data["case"])
    if lcorp:
        _merge(ctx, summarise_listing(run_listing_cases(lcorp), "corpus"))
    if icorp:
        _merge(ctx, summarise_index(run_index_cases(icorp), "corpus"))
    if gcorp:
        _merge(ctx, summarise_gate(run_gate_cases(gcorp), "corpus"))
    # ---- generated cases: real code, oracle and Lean comparison per shard
    n_index = ctx.budget(2000, 100_000)
    n_gate = ctx.budget(100, 5000)
    shards = 16 if thorough else 1
    base = ctx.seed * 1000
    ijobs = [(base + i, n_index // shards + (1 if i < n_index % shards else 0), str(ctx.repo), True) for i in range(shards)]
    gjobs = [(base + i, n_gate // shards + (1 if i < n_gate % shards else 0), str(ctx.repo), True) for i in range(shards)]
    for sm in _map(index_shard, ijobs, thorough):
        _merge(ctx, sm)
    for sm in _map(gate_shard, gjobs, thorough):
        _merge(ctx, sm)
    # ---- part L: the producer of LISTED under pauses
    n_listing = ctx.budget(150, 6000)
    ljobs = [(base + i, n_listing // shards + (1 if i < n_listing % shards else 0), str(ctx.repo), True) for i in range(shards)]
    for sm in _map(listing_shard, ljobs, thorough):
        _merge(ctx, sm)
    # ---- part S: whole-operator start-ups (subprocess workers on all cores: harness/sim/pool)
    n_boot = ctx.budget(48, 1600)
    rng = random.Random(f"C17-boot-{base}")
    _merge(ctx, summarise_boot(run_boot_cases(bcorp + [gen_boot_case(rng) for _ in range(n_boot)],
                                              batch=6 if not thorough else 25), "corpus+generated"))
    ctx.exhaustive = False


def search(ctx: Ctx, broken: list) -> None:
    """A proof or tie is broken and the oracle saw nothing: 10x budget, oracle only."""
    _prepare(str(ctx.repo))
    n_index = ctx.budget(20_000, 200_000)
    n_gate = ctx.budget(1000, 10_000)
    base = ctx.seed * 1000 + 500
    for fn, n in ((index_shard, n_index), (gate_shard, n_gate), (listing_shard, ctx.budget(1600, 16_000))):
        for sm in _map(fn, [(base + i, n // 16, str(ctx.repo), False) for i in range(16)], True):
            for what, replay_, sig in sm["oracle"]:
                ctx.oracle_fail(what, replay_, sig)
    rng = random.Random(f"C17-boot-search-{base}")
    sm = summarise_boot(run_boot_cases([gen_boot_case(rng) for _ in range(ctx.budget(320, 3200))], batch=20), "search")
    for what, replay_, sig in sm["oracle"]:
        ctx.oracle_fail(what, replay_, sig)


def replay(ctx: Ctx, data: dict) -> None:
    _prepare(str(ctx.repo))
    case = data["replay"]["case"] if "replay" in data else data["case"]
    res = run_index_cases([case]) if case["kind"] == "index" else run_gate_cases([case]) if case["kind"] == "gate" \
        else run_listing_cases([case]) if case["kind"] == "listing" else run_boot_cases([case])
    for r in res:
        for what, detail, sig in r["fails"]:
            print(f"replay: {what}", file=sys.stderr)
            ctx.oracle_fail(what, {"case": case, "detail": detail}, sig)
